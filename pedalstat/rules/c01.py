"""C01 - resolver shows the highest-priority eligible feedback and nothing ineligible; never raises."""
import ast
import itertools

from ..astutil import dotted, calls, call_name, body_walk, walk_local, is_self_attr, method_calls, kw
from ..fdeval import FD, Obj, Raised, Inconclusive, UNKNOWN, NO_RETURN
from ..loader import AnalysisError, norm, enclosing_function
from ..symbols import Symbols, ClassInfo
from .resolver_model import Model

FEEDBACK = 'pedal.core.feedback'
SIMPLE = 'pedal.resolvers.simple'
REPORT = 'pedal.core.report'
FINAL = 'pedal.core.final_feedback'

# the order written in the property statement
DOCUMENTED = ['highest', 'syntax', 'mistakes', 'instructor', 'algorithmic', 'runtime', 'student',
              'specification', 'positive', 'instructions', 'uncategorized', 'lowest']


def rank_table(ctx, sym):
    mod = ctx.repo.module(FEEDBACK)
    expr = mod.top_assign('DEFAULT_CATEGORY_PRIORITY')
    try:
        table = sym.const(mod, expr)
    except KeyError as e:
        raise AnalysisError("C01 R1: DEFAULT_CATEGORY_PRIORITY is not a literal list of constants (%s)" % e)
    return mod, expr, list(table)


def r1_rank_table(ctx, sym):
    ctx.rule('R1', "DEFAULT_CATEGORY_PRIORITY (constants resolved) equals the documented rank order of the property "
                   "statement")
    mod, expr, table = rank_table(ctx, sym)
    ctx.check(table == DOCUMENTED, 'R1', 'DEFAULT_CATEGORY_PRIORITY:order', mod, expr,
              "rank order is %s; documented order is %s" % (table, DOCUMENTED),
              "two triggered feedbacks of the swapped categories: the lower-ranked one is shown",
              sample={'table': table})
    for i, name in enumerate(DOCUMENTED):
        ctx.check(i < len(table) and table[i] == name, 'R1', 'rank[%d]=%s' % (i, name), mod, expr,
                  "rank %d is %r, documented %r" % (i, table[i] if i < len(table) else None, name),
                  "feedback of category %r is ranked out of order" % name, construct='rank %d' % i)
    # docs cross-check (information only)
    try:
        text = ctx.repo.read_text('docsrc/developers/ffs.rst')
        ctx.info("docsrc/developers/ffs.rst present (%d bytes); order cross-check is informational" % len(text))
    except OSError:
        pass
    return table


def r2_rank_function(ctx, sym, table):
    ctx.rule('R2', "decision table of by_priority o priority_offset over category x priority (exhaustive finite "
                   "domain, abstract interpretation): default order = rank table, unknown categories after 'lowest', "
                   "a priority naming a rank re-ranks to that rank's default slot, high < medium < low strictly inside "
                   "one rank with offsets in (0,1), total for None category/priority")
    mod = ctx.repo.module(SIMPLE)
    bp = mod.func('by_priority')
    po = mod.func('priority_offset')
    ctx.analysed_function(mod, bp)
    ctx.analysed_function(mod, po)
    fmod = ctx.repo.module(FEEDBACK)
    aliases = sym.const(fmod, ast.parse('Feedback.CATEGORIES.ALIASES', mode='eval').body)
    ci = sym.find_class('pedal.core.feedback_category', 'FeedbackCategory')
    cats = sorted({sym.const(ci.module, v) for k, v in ci.attrs.items()
                   if isinstance(v, ast.Constant) and isinstance(v.value, str)})
    ctx.floor('R2', 'feedback categories', len(cats), 12)
    categories = cats + [t for t in table if t not in cats] + [None, 'some-custom-category'] + \
        [c.upper() for c in cats[:3]]
    priorities = [None, 'high', 'medium', 'low', 'HIGH', 'bogus'] + list(table) + sorted(aliases)

    from ..fdeval import module_resolver
    resolver = module_resolver(sym, mod)

    def key_of(cat, pri):
        fd = FD(resolver=resolver)
        fd.functions['priority_offset'] = po
        fb = Obj('feedback', category=cat, priority=pri)
        try:
            v = fd.call_function(bp, [fb])
        except Raised as r:
            return ('raised', r.kind, r.detail, getattr(r, 'node', None))
        except Inconclusive as e:
            raise AnalysisError("C01 R2: by_priority outside the decidable fragment: %s" % e)
        return v

    grid = {}
    for c in categories:
        for p in priorities:
            grid[(c, p)] = key_of(c, p)
    n = len(table)
    # (d) totality
    for (c, p), v in grid.items():
        if isinstance(v, tuple):
            ctx.fail('R2', 'by_priority(%r,%r):raises' % (c, p), mod, v[3] if v[3] is not None else bp,
                     "by_priority raises %s for category=%r priority=%r" % (v[1], c, p),
                     "feedback(category=%r, priority=%r) makes resolve() raise" % (c, p), function='by_priority')
    vals = {k: v for k, v in grid.items() if not isinstance(v, tuple)}
    ctx.require(all(isinstance(v, (int, float)) for v in vals.values()), "by_priority returns non-numbers")
    # (a) default order
    for i, name in enumerate(table):
        v = vals.get((name, None))
        ctx.check(v is not None and i < v < i + 1, 'R2', 'default-rank[%s]' % name, mod, bp,
                  "category %r with default priority sorts at %r, outside rank %d" % (name, v, i),
                  "two feedbacks of adjacent ranks are shown in the wrong order", construct='by_priority',
                  sample={'category': name, 'key': v})
    for c in categories:
        if c is None or (isinstance(c, str) and c.lower() in table):
            continue
        v = vals.get((c, None))
        ctx.check(v is not None and v > n, 'R2', 'other-category[%s]' % c, mod, bp,
                  "category %r (not in the rank list) sorts at %r, not after 'lowest'" % (c, v),
                  "a %r feedback outranks a listed category" % c, construct='by_priority')
    v = vals.get((None, None))
    unk = table.index('uncategorized') if 'uncategorized' in table else None
    ctx.check(v is not None and unk is not None and unk < v < unk + 1, 'R2', 'none-category', mod, bp,
              "a feedback without category sorts at %r, not in the 'uncategorized' rank" % (v,),
              "feedback(message=...) with no category is mis-ranked", construct='by_priority')
    # case-insensitivity of categories
    for c in cats[:3]:
        ctx.check(vals.get((c.upper(), None)) == vals.get((c, None)), 'R2', 'case[%s]' % c, mod, bp,
                  "category matching is case-sensitive", "category='Syntax' is ranked as unknown",
                  construct='by_priority')
    # (b) re-ranking
    for c in ('runtime', 'some-custom-category'):
        for i, name in enumerate(table):
            v = vals.get((c, name))
            ctx.check(v == vals.get((name, None)), 'R2', 'rerank[%s->%s]' % (c, name), mod, bp,
                      "priority=%r re-ranks a %r feedback to %r, not to that rank's default slot %r" % (
                          name, c, v, vals.get((name, None))),
                      "gently()-style feedback with priority=%r is ordered wrongly" % name, construct='by_priority')
        for alias, target in sorted(aliases.items()):
            ctx.check(vals.get((c, alias)) == vals.get((target, None)), 'R2', 'rerank-alias[%s->%s]' % (c, alias),
                      mod, bp, "priority alias %r does not re-rank to %r" % (alias, target),
                      "priority=%r" % alias, construct='by_priority')
    # (c) strict high < medium < low inside the rank, offsets in (0, 1)
    for i, name in enumerate(table):
        h, m, lo = vals.get((name, 'high')), vals.get((name, 'medium')), vals.get((name, 'low'))
        ok = None not in (h, m, lo) and i < h < m < lo < i + 1 and vals.get((name, None)) == m
        ctx.check(ok, 'R2', 'offsets[%s]' % name, mod, po,
                  "inside rank %r: high=%r medium=%r low=%r default=%r; need rank < high < medium(default) < low < "
                  "rank+1" % (name, h, m, lo, vals.get((name, None))),
                  "two %s feedbacks with priority high/low are shown in the wrong order, or a shifted feedback "
                  "crosses into the neighbouring rank" % name, construct='priority_offset')
        ctx.check(vals.get((name, 'HIGH')) == h, 'R2', 'offset-case[%s]' % name, mod, bp,
                  "priority matching is case-sensitive", "priority='High'", construct='by_priority')
        b = vals.get((name, 'bogus'))
        ctx.check(b is not None and i < b < i + 1, 'R2', 'offset-unknown[%s]' % name, mod, po,
                  "an unknown priority string moves a %r feedback to %r, outside its rank" % (name, b),
                  "priority='urgent' crosses a rank boundary", construct='priority_offset')
    ctx.ok('R2', 'grid', sample={'cells': len(grid)})


RESOLVERS = (('pedal.resolvers.simple', True), ('pedal.resolvers.full', True), ('pedal.resolvers.sectional', False))


def r3_r5_resolvers(ctx, sym, ids=('R3', 'R5'), writers=True, model=None):
    """The resolver drivers, executed abstractly: resolve(report, key) of each resolver module is run on small
    reports with a symbolic rank function and compared with the oracle applied to the stably rank-sorted list."""
    R3, R5 = ids
    ctx.rule(R3, "each resolver orders report.feedback (+ ignored_feedback) by priority_key with a stable sort "
                 "(abstract execution of resolve() with a symbolic rank function over reports with ties and "
                 "inversions: the outcome equals the oracle on the stably sorted list); priority_key defaults to "
                 "by_priority; report.feedback only ever grows at the end")
    ctx.rule(R5, "each resolver merges every feedback of the sorted list and finalizes once, starting from "
                 "set_correct_no_errors(report), and returns/stores the final feedback (abstract execution: label, "
                 "correct and score of the result equal the oracle's on every small report)")
    from .resolver_model import Model
    model = model or Model(ctx, sym)
    for modname, with_ignored in RESOLVERS:
        mod = ctx.repo.module(modname)
        fn = mod.func('resolve')
        ctx.analysed_function(mod, fn)
        tag = modname.split('.')[-1]
        # priority_key default
        args = fn.args
        defaults = dict(zip([a.arg for a in args.args][len(args.args) - len(args.defaults):], args.defaults))
        pk = defaults.get('priority_key')
        r = sym.resolve_name(mod, pk.id) if isinstance(pk, ast.Name) else None
        ctx.check(isinstance(r, tuple) and r[0] == 'func' and r[1].name == SIMPLE and r[2].name == 'by_priority',
                  R3, tag + ':priority_key', mod, fn, "priority_key does not default to simple.by_priority",
                  "feedback is ordered by something other than the documented ranks", construct='def resolve(...)')
        order_bad, merge_bad, n = [], [], 0
        for cfgs, ranks in driver_reports(model):
            n += 1
            got = model.run_driver(fn, cfgs, ranks, with_ignored)
            order = sorted(range(len(cfgs)), key=lambda i: ranks[i])   # stable: ties keep creation order
            # creation order of the resolver's input: triggered feedback first (report.feedback), then ignored
            created = [i for i in range(len(cfgs)) if cfgs[i]['triggered']] + \
                      ([i for i in range(len(cfgs)) if not cfgs[i]['triggered']] if with_ignored else [])
            order = sorted(created, key=lambda i: ranks[i])
            want = model.oracle([cfgs[i] for i in order])
            if isinstance(got, tuple):
                merge_bad.append((cfgs, ranks, 'raises %s (%s)' % (got[1], got[2]), want))
                continue
            if got.get('label') != want['label']:
                # distinguish ordering from merging: does any permutation-independent reading explain it?
                unsorted_want = model.oracle([cfgs[i] for i in created])
                (order_bad if len({ranks[i] for i in created}) > 1 or unsorted_want['label'] != want['label']
                 else merge_bad).append((cfgs, ranks, got.get('label'), want['label']))
            elif got.get('correct') != want['correct'] or (
                    isinstance(got.get('score'), (int, float)) and abs(got['score'] - want['score']) > 1e-9):
                merge_bad.append((cfgs, ranks, 'correct=%r score=%r' % (got.get('correct'), got.get('score')),
                                  'correct=%r score=%r' % (want['correct'], want['score'])))
        # resolving the same report twice, with a feedback muted / unmuted in between, gives the result for the state
        # at the second call
        for first_muted, plain in itertools.product((True, False), (False, True)):
            cfgs2 = [dict(category='runtime', label='A', triggered=True, correct=False, muted=first_muted),
                     dict(category='runtime', label='B', triggered=True, correct=True)]

            def flip(fbs, report):
                fbs[0].attrs['muted'] = not first_muted
            n += 1
            got = model.run_driver(fn, cfgs2, [1, 2], with_ignored, then=flip, plain=plain)
            want = model.oracle([dict(cfgs2[0], muted=not first_muted), cfgs2[1]])
            if isinstance(got, tuple) or got.get('label') != want['label'] or got.get('correct') != want['correct']:
                merge_bad.append((cfgs2, [1, 2], ('second resolve after %s the first feedback: ' % (
                    'unmuting' if first_muted else 'muting')) + (str(got[1:]) if isinstance(got, tuple) else
                                                                 '%r correct=%r' % (got.get('label'), got.get('correct'))),
                                  '%r correct=%r' % (want['label'], want['correct'])))
        # asked about a report by keyword (a batch grader's own report), the resolver answers for that report
        for plain in (True,):
            cfgs3 = [dict(category='runtime', label='A', triggered=True, correct=False)]
            n += 1
            got = model.run_driver(fn, cfgs3, [1], with_ignored, plain=plain, keyword=True)
            want = model.oracle(cfgs3)
            if isinstance(got, tuple) or got.get('label') != want['label'] or got.get('correct') != want['correct']:
                merge_bad.append((cfgs3, [1], 'resolve(report=r): ' + (str(got[1:]) if isinstance(got, tuple) else
                                                                        '%r correct=%r' % (got.get('label'), got.get('correct'))),
                                  '%r correct=%r' % (want['label'], want['correct'])))
        ctx.floor(R3, 'driver reports (%s)' % tag, n, 100)

        def show(item):
            cfgs, ranks, got, want = item
            return "report %s with ranks %s resolves to %r, expected %r" % (
                [(c['label'], 'triggered' if c['triggered'] else 'untriggered') for c in cfgs], list(ranks), got, want)
        ctx.check(not order_bad, R3, tag + ':stable-sort', mod, fn,
                  "%d of %d small reports are not resolved in stable priority order; e.g. %s" % (
                      len(order_bad), n, show(order_bad[0]) if order_bad else ''),
                  "ties are no longer broken by creation order / order is reversed / part of the list is not sorted",
                  construct='resolve')
        ctx.check(not merge_bad, R5, tag + ':merge-all-then-finalize', mod, fn,
                  "%d of %d small reports are not merged completely and finalized once; e.g. %s" % (
                      len(merge_bad), n, show(merge_bad[0]) if merge_bad else ''),
                  "an eligible feedback is skipped, a score is dropped, or the default 'no errors' result is not "
                  "installed", construct='resolve')
    if not writers:
        return
    # who mutates report.feedback: appending (anywhere in Report) and clearing keep "list order = creation order";
    # anything else, or any writer outside Report, does not
    rmod = ctx.repo.module(REPORT)
    MUT = ('append', 'extend', 'insert', 'pop', 'remove', 'clear', 'sort', 'reverse')
    n = 0
    for m in ctx.repo.modules.values():
        for node in ast.walk(m.tree):
            hit = None
            if isinstance(node, ast.Call) and isinstance(node.func, ast.Attribute) and node.func.attr in MUT and \
                    isinstance(node.func.value, ast.Attribute) and node.func.value.attr in ('feedback', 'ignored_feedback'):
                base = norm(node.func.value.value)
                if 'report' in base.lower() or (m is rmod and base == 'self'):
                    hit = (node.func.value.attr, node.func.attr)
            elif isinstance(node, (ast.Assign, ast.AugAssign)):
                tg = node.targets if isinstance(node, ast.Assign) else [node.target]
                for t in tg:
                    if isinstance(t, ast.Attribute) and t.attr in ('feedback', 'ignored_feedback'):
                        base = norm(t.value)
                        if 'report' in base.lower() or (m is rmod and base == 'self'):
                            empty = isinstance(node, ast.Assign) and isinstance(node.value, ast.List) \
                                and not node.value.elts
                            hit = (t.attr, 'assign-empty' if empty else 'assign')
            if hit:
                n += 1
                f = enclosing_function(node)
                q = getattr(f, '_qualname', '<module>')
                inside_report = m is rmod and q.startswith('Report.')
                ctx.check(inside_report and hit[1] in ('append', 'clear', 'assign-empty'), R3,
                          'writer:%s.%s@%s' % (hit[0], hit[1], q), m, node,
                          "report.%s is mutated (%s) other than by appending/clearing inside Report" % hit,
                          "creation order of feedback is no longer the list order (tie-break changes)")
    # a Report method may hand one of the two lists to a helper of Report (`self._file(fb, self.feedback, True)`): the
    # helper's parameter is then an alias of the list, and what it does with it counts as a write of Report's own
    rci = sym.find_class(REPORT, 'Report')
    for q, f in rmod.functions.items():
        if not q.startswith('Report.'):
            continue
        for c in ast.walk(f):
            if not (isinstance(c, ast.Call) and isinstance(c.func, ast.Attribute) and norm(c.func.value) == 'self'):
                continue
            found = sym.method(rci, c.func.attr) if rci is not None else None
            callee = found[1] if isinstance(found, tuple) else found
            if not isinstance(callee, ast.FunctionDef):
                continue
            static = any(dotted(d) == 'staticmethod' for d in callee.decorator_list)
            params = [a.arg for a in callee.args.args][0 if static else 1:]
            for i, a in enumerate(c.args):
                if isinstance(a, ast.Attribute) and a.attr in ('feedback', 'ignored_feedback') and \
                        norm(a.value) == 'self' and i < len(params):
                    alias = params[i]
                    for u in ast.walk(callee):
                        if isinstance(u, ast.Call) and isinstance(u.func, ast.Attribute) and u.func.attr in MUT and \
                                isinstance(u.func.value, ast.Name) and u.func.value.id == alias:
                            n += 1
                            ctx.check(u.func.attr in ('append', 'clear'), R3,
                                      'writer:%s.%s@%s(via %s)' % (a.attr, u.func.attr, q, callee.name), rmod, u,
                                      "report.%s is mutated (%s) through a helper other than by appending/clearing" % (
                                          a.attr, u.func.attr),
                                      "creation order of feedback is no longer the list order (tie-break changes)")
                        elif isinstance(u, (ast.Assign, ast.AugAssign)) and any(
                                isinstance(t, ast.Subscript) and isinstance(t.value, ast.Name) and t.value.id == alias
                                for t in (u.targets if isinstance(u, ast.Assign) else [u.target])):
                            n += 1
                            ctx.fail(R3, 'writer:%s.item-assign@%s(via %s)' % (a.attr, q, callee.name), rmod, u,
                                     "report.%s is assigned into through a helper" % a.attr,
                                     "creation order of feedback is no longer the list order")
    # `for container in (self.feedback, self.ignored_feedback, ...): container.clear()` inside Report
    for q, f in rmod.functions.items():
        if not q.startswith('Report.'):
            continue
        for loop in ast.walk(f):
            if not (isinstance(loop, ast.For) and isinstance(loop.target, ast.Name) and
                    isinstance(loop.iter, (ast.Tuple, ast.List))):
                continue
            named = [e.attr for e in loop.iter.elts if isinstance(e, ast.Attribute) and norm(e.value) == 'self'
                     and e.attr in ('feedback', 'ignored_feedback')]
            for u in ast.walk(loop):
                if named and isinstance(u, ast.Call) and isinstance(u.func, ast.Attribute) and u.func.attr in MUT and \
                        isinstance(u.func.value, ast.Name) and u.func.value.id == loop.target.id:
                    for attr_ in named:
                        n += 1
                        ctx.check(u.func.attr in ('append', 'clear'), R3,
                                  'writer:%s.%s@%s(loop)' % (attr_, u.func.attr, q), rmod, u,
                                  "report.%s is mutated (%s) in a loop other than by appending/clearing" % (
                                      attr_, u.func.attr),
                                  "creation order of feedback is no longer the list order (tie-break changes)")
    ctx.floor(R3, 'writers of report.feedback', n, 6)


def driver_reports(model):
    """Small reports for the driver rule: (configs in creation order, rank per config)."""
    base = [dict(category='runtime', label='A', triggered=True, score='+10%', correct=False),
            dict(category='runtime', label='B', triggered=True, correct=True, score=0.25),
            dict(category='runtime', label='C', triggered=False, valence=model.NEG, score='+5%'),
            dict(category='runtime', label='D', triggered=True, kind=model.KIND_COMPLIMENT),
            dict(category='runtime', label='E', triggered=True, muted=True, correct=False, score=0.5),
            dict(category='runtime', label='F', triggered=False, else_message='else F'),
            dict(category='runtime', label='G', triggered=False, muted=True, valence=model.NEG, score='+5%'),
            # two feedbacks that look alike (same category, label, message) but differ in what they declare
            dict(category='runtime', label='H', triggered=True, correct=True),
            dict(category='runtime', label='H', triggered=True, correct=False)]
    yield [], []
    for a in base:
        yield [a], [1]
    for a, b in itertools.product(base, repeat=2):
        if a is b:
            continue
        for ranks in ((1, 1), (1, 2), (2, 1)):
            yield [a, b], ranks
    for a, b, c in itertools.permutations(base[:4], 3):
        for ranks in ((1, 1, 1), (2, 1, 1), (1, 2, 1), (2, 2, 1), (3, 2, 1), (1, 1, 0)):
            yield [a, b, c], ranks


def domain_eligibility(model):
    """Configurations for the eligibility / selection table."""
    sups = [
        ('none', {}, {}),
        ('category', {'runtime': {True: [{}]}}, {}),
        ('category+label', {'runtime': {'x': [{}]}}, {}),
        ('category+otherlabel', {'runtime': {'zzz': [{}]}}, {}),
        ('category+label+fields-match', {'runtime': {'x': [{'k': 1}]}}, {}),
        ('category+label+fields-mismatch', {'runtime': {'x': [{'k': 2}]}}, {}),
        ('label', {}, {'X': [{}]}),
        ('otherlabel', {}, {'zzz': [{}]}),
        ('label+fields-match', {}, {'X': [{'k': 1}]}),
        ('label+fields-mismatch', {}, {'X': [{'k': 2}, {'j': 0}]}),
        ('hide-correct', {'correct': {True: [{}]}}, {}),
        ('label+unrelated-category-entry', {'runtime': {'zzz': [{}]}}, {'X': [{}]}),
        ('label+category-entry-with-other-fields', {'runtime': {'x': [{'k': 2}]}}, {'X': [{}]}),
        ('category+label+unrelated-label-entry', {'runtime': {'x': [{}]}}, {'zzz': [{}]}),
    ]
    for (sname, s, sl), trig, muted, kind, else_m, correct in itertools.product(
            sups, (True, False), (None, True, False), ('Mistake', model.KIND_COMPLIMENT, model.KIND_INSTRUCTIONAL),
            (None, 'else'), (None, True)):
        cfg = dict(category='runtime', label='X', fields={'k': 1}, triggered=trig, muted=muted, kind=kind,
                   else_message=else_m, correct=correct)
        yield sname, s, sl, cfg
        if trig and sname in ('none', 'label', 'otherlabel', 'hide-correct'):
            # a feedback whose rendered message is blank (explain(''), an empty template) is still feedback
            yield sname + '+blank-message', s, sl, dict(cfg, message='')


def r4_r6_merge_table(ctx, sym, model):
    ctx.rule('R4', "decision table of FinalFeedback.merge/finalize by abstract interpretation over suppression kind "
                   "(11) x triggered x muted x kind x else_message x correct, plus ordered pairs: the delivered label "
                   "is that of the first feedback that is triggered, unmuted, unsuppressed and not a compliment, else "
                   "the default 'no errors' label (oracle transcribed from the property)")
    ctx.rule('R6', "resolving never raises: no cell of the merge/finalize/by_priority tables evaluates to an exception "
                   "(attribute/subscript protocol of Feedback objects included)")
    mod = model.fmod
    merge = model.merge_fn
    n = 0
    raised = {}
    mism = []
    for sname, s, sl, cfg in domain_eligibility(model):
        n += 1
        got = model.resolve([cfg], s, sl)
        want = model.oracle([cfg], s, sl)
        if isinstance(got, tuple):
            raised.setdefault((got[1], got[2]), []).append((sname, cfg))
            continue
        if got['label'] != want['label']:
            mism.append((sname, cfg, got['label'], want['label']))
        elif got['message'] is None or got['title'] is None:
            mism.append((sname, cfg, 'message=%r title=%r' % (got['message'], got['title']),
                         'a delivered title and message'))
    # pairs: first eligible wins
    base = [dict(category='runtime', label='A', triggered=True),
            dict(category='runtime', label='B', triggered=True, muted=True),
            dict(category='runtime', label='C', triggered=False),
            dict(category='runtime', label='D', triggered=True, kind=model.KIND_COMPLIMENT),
            dict(category='syntax', label='E', triggered=True),
            dict(category='runtime', label='X', triggered=True, fields={'k': 1})]
    sl = {'X': [{'k': 1}]}
    for a, b in itertools.product(base, repeat=2):
        n += 1
        got = model.resolve([a, b], {}, sl)
        want = model.oracle([a, b], {}, sl)
        if isinstance(got, tuple):
            raised.setdefault((got[1], got[2]), []).append(('pair', a))
            continue
        if got['label'] != want['label']:
            mism.append(('pair', (a['label'], b['label']), got['label'], want['label']))
    for a, b, c in itertools.product(base[:5], repeat=3):
        n += 1
        got = model.resolve([a, b, c])
        want = model.oracle([a, b, c])
        if not isinstance(got, tuple) and got['label'] != want['label']:
            mism.append(('triple', (a['label'], b['label'], c['label']), got['label'], want['label']))
    if ctx.tier == 'thorough':
        sups = [({}, {}), ({'runtime': {True: [{}]}}, {}), ({'syntax': {'e': [{}]}}, {}), ({}, {'A': [{}]}),
                ({}, {'X': [{'k': 1}], 'D': [{}]})]
        for seq in itertools.product(base, repeat=3):
            for s_, sl_ in sups:
                n += 1
                got, want = model.resolve(list(seq), s_, sl_), model.oracle(list(seq), s_, sl_)
                if isinstance(got, tuple):
                    raised.setdefault((got[1], got[2]), []).append(('triple', seq[0]))
                elif got['label'] != want['label']:
                    mism.append(('triple+suppression', tuple(c['label'] for c in seq), got['label'], want['label']))
        for seq in itertools.product(base[:5], repeat=4):
            n += 1
            got, want = model.resolve(list(seq)), model.oracle(list(seq))
            if not isinstance(got, tuple) and got['label'] != want['label']:
                mism.append(('quad', tuple(c['label'] for c in seq), got['label'], want['label']))
    # writer/reader agreement: the tables are built by Report.suppress itself (executed abstractly); suppressing
    # exactly a feedback's own category / label / fields must suppress that feedback, and nothing else
    rmod = ctx.repo.module(REPORT)
    suppress_fn = rmod.func('Report.suppress')
    ctx.analysed_function(rmod, suppress_fn)
    from ..fdeval import FD as _FD, Obj as _Obj, Raised as _Raised, Inconclusive as _Inc, module_resolver as _mr
    for label in ('KeyError', 'keyerror', 'Mixed_Case_label'):
        for cat_arg, fb_cat in ((None, 'runtime'), ('runtime', 'runtime'), ('Runtime', 'runtime'),
                                ('runtime', 'Runtime'), ('RUNTIME', 'runtime')):
            for fields_arg in (None, {'k': 1}):
                rep = _Obj('Report', suppressions={}, suppressed_labels={})
                rep.attrs['__classdef__'] = rmod.cls('Report')
                fd0 = _FD(max_steps=100000, resolver=_mr(sym, rmod))
                fd0.calls['isinstance'] = lambda o, t: isinstance(o, t) if isinstance(t, (type, tuple)) else False
                kwargs = {'label': label}
                if cat_arg is not None:
                    kwargs['category'] = cat_arg
                if fields_arg is not None:
                    kwargs['fields'] = dict(fields_arg)
                try:
                    fd0.call_function(suppress_fn, [], kwargs, bound_self=rep)
                except _Raised as e:
                    ctx.fail('R6', 'suppress:raises:%s' % e.kind, rmod, suppress_fn,
                             "suppress(%r) raises %s" % (kwargs, e.kind), "suppress(**%r)" % kwargs)
                    continue
                except _Inc as e:
                    raise AnalysisError("C01 R4: Report.suppress outside the decidable fragment: %s" % e)
                s_, sl_ = rep.attrs['suppressions'], rep.attrs['suppressed_labels']
                target = dict(category=fb_cat, label=label, triggered=True, fields={'k': 1, 'z': 2})
                bystander = dict(category=fb_cat, label='other_label', triggered=True, fields={'k': 1})
                for cfgs, want_label, what in (([target], model.default_label, 'is still delivered'),
                                               ([target, bystander], 'other_label', 'hides the wrong feedback')):
                    n += 1
                    got = model.resolve(cfgs, s_, sl_)
                    if isinstance(got, tuple):
                        raised.setdefault((got[1], got[2]), []).append(('suppress(%r)' % kwargs, target))
                    elif got['label'] != want_label:
                        mism.append(('suppress-writer/reader', 'suppress(%s) then a %s/%s feedback with fields %r' % (
                            ', '.join('%s=%r' % kv for kv in kwargs.items()), fb_cat, label, target['fields']),
                                     got['label'], want_label))
    # category None / empty cases (never raises)
    for cfg in (dict(category=None, label='N', triggered=True), dict(category=None, label='N', triggered=False),
                dict(category='Runtime', label='N', triggered=True)):
        n += 1
        got = model.resolve([cfg])
        if isinstance(got, tuple):
            raised.setdefault((got[1], got[2]), []).append(('no-category', cfg))
        else:
            want = model.oracle([cfg])
            if got['label'] != want['label']:
                mism.append(('no-category', cfg, got['label'], want['label']))
    got = model.resolve([])
    ctx.check(not isinstance(got, tuple) and got['label'] == model.default_label and got['correct'] is True
              and got['message'] and got['title'], 'R4', 'empty-report', mod, model.finalize_fn,
              "an empty report does not resolve to the default complete/no-errors result: %r" % (got,),
              "a submission with no feedback at all", construct='finalize')
    ctx.floor('R4', 'merge table cells', n, 800)
    if mism:
        groups = {}
        for m in mism:
            groups.setdefault(m[0], []).append(m)
        for sname, ms in sorted(groups.items()):
            ex = ms[0]
            ctx.fail('R4', 'merge:selection[%s]' % sname, mod, merge,
                     "%d cell(s) deliver the wrong feedback; e.g. %r delivers label %r, the property requires %r" % (
                         len(ms), ex[1], ex[2], ex[3]),
                     "report with the feedback configuration %r under suppression scenario %r" % (ex[1], sname),
                     function='FinalFeedback.merge', construct='filters of merge')
    else:
        ctx.ok('R4', 'merge:selection', sample={'cells': n, 'mismatches': 0})
    # R6
    if raised:
        for (kind, detail), cases in sorted(raised.items()):
            sname, cfg = cases[0]
            node = _find_raising_node(model, cfg, sname)
            ctx.fail('R6', 'merge:raises:%s:%s' % (kind, norm(node) if node is not None else detail), mod,
                     node if node is not None else merge,
                     "resolving raises %s (%s) in %d cell(s) of the table, e.g. suppression scenario %r with %r" % (
                         kind, detail, len(cases), sname, {k: v for k, v in cfg.items() if k in (
                             'category', 'label', 'triggered', 'fields')}),
                     "suppress(label='X', fields={...}) followed by any feedback labelled 'X'" if 'subscript' in detail
                     else "feedback(message='...') created without a category, then resolve()",
                     function='FinalFeedback.merge')
    else:
        ctx.ok('R6', 'merge:never-raises', sample={'cells': n})
    ctx.info("merge/finalize table: %d cells, %d mismatches, %d raising" % (
        n, len(mism), sum(len(v) for v in raised.values())))


def _find_raising_node(model, cfg, sname):
    """Re-run the cell and return the AST node at which the abstract evaluation raised."""
    sups = {s[0]: s for s in (
        ('category+label+fields-match', {'runtime': {'x': [{'k': 1}]}}, {}),)}
    # brute force: try the standard scenarios until one raises again
    for name, s, sl, c in domain_eligibility(model):
        if name == sname and c['triggered'] == cfg.get('triggered') and c.get('muted') == cfg.get('muted'):
            fd, final = model.new_final(s, sl)
            try:
                fd.call_function(model.merge_fn, [model.make_feedback(cfg)], bound_self=final)
            except Raised as r:
                return getattr(r, 'node', None)
    fd, final = model.new_final({}, {'X': [{'k': 1}]})
    try:
        fd.call_function(model.merge_fn, [model.make_feedback(cfg)], bound_self=final)
    except Raised as r:
        return getattr(r, 'node', None)
    return None


def r6_protocol(ctx, sym, model):
    """Protocol conformance of the `feedback` parameter on the resolver path (class-table check)."""
    fb = sym.find_class(FEEDBACK, 'Feedback')
    defined = set()
    for c in sym.mro(fb):
        defined |= set(c.attrs) | set(c.methods) | set(c.self_attrs)
    for mod, fn in ((model.fmod, model.merge_fn), (model.fmod, model.parse_feedback_fn),
                    (ctx.repo.module(SIMPLE), ctx.repo.module(SIMPLE).func('by_priority'))):
        p = [a.arg for a in fn.args.args if a.arg != 'self'][0]
        for n in body_walk(fn):
            if isinstance(n, ast.Attribute) and isinstance(n.value, ast.Name) and n.value.id == p \
                    and isinstance(n.ctx, ast.Load):
                ctx.check(n.attr in defined, 'R6', '%s:%s.%s' % (fn.name, p, n.attr), mod, n,
                          "Feedback defines no attribute %r" % n.attr,
                          "any feedback reaching this statement raises AttributeError")


def r7_field_values_compare_by_content(ctx, sym):
    ctx.rule('R7', "a suppression by fields matches a feedback when the field values are equal: for every @dataclass in "
                   "pedal.core (the classes whose instances feedback fields hold, e.g. Location), every attribute its "
                   "__init__ assigns is a declared field, or the class defines __eq__ itself - a dataclass-generated "
                   "__eq__ compares the declared fields only, so with none declared every two instances are equal")
    n = 0
    for m in ctx.repo.modules.values():
        if not (m.name == 'pedal.core' or m.name.startswith('pedal.core.')):
            continue
        for q, cls in m.classes.items():
            decos = [dotted(d.func if isinstance(d, ast.Call) else d) for d in cls.decorator_list]
            if not any(d in ('dataclass', 'dataclasses.dataclass') for d in decos):
                continue
            n += 1
            eq_off = any(isinstance(d, ast.Call) and any(k.arg == 'eq' and isinstance(k.value, ast.Constant)
                                                         and k.value.value is False for k in d.keywords)
                         for d in cls.decorator_list)
            declared = {st.target.id for st in cls.body if isinstance(st, ast.AnnAssign) and isinstance(st.target, ast.Name)}
            own_eq = any(isinstance(st, ast.FunctionDef) and st.name == '__eq__' for st in cls.body)
            init = next((st for st in cls.body if isinstance(st, ast.FunctionDef) and st.name == '__init__'), None)
            assigned = set()
            if init is not None:
                for node in ast.walk(init):
                    if isinstance(node, (ast.Assign, ast.AnnAssign, ast.AugAssign)):
                        for t in (node.targets if isinstance(node, ast.Assign) else [node.target]):
                            if isinstance(t, ast.Attribute) and isinstance(t.value, ast.Name) and t.value.id == 'self':
                                assigned.add(t.attr)
            ignored = sorted(assigned - declared)
            ctx.check(own_eq or eq_off or not ignored, 'R7', 'dataclass-eq:%s.%s' % (m.name, q), m, cls,
                      "%s is a @dataclass whose generated __eq__ compares only the declared fields %s and ignores the "
                      "attributes %s its __init__ sets: any two instances are equal" % (
                          q, sorted(declared) or 'none', ignored),
                      "suppress('runtime', 'x', fields={'location': Location(3)}) also suppresses the feedback located "
                      "on line 5: Location(3) == Location(5)")
            if own_eq and init is not None:
                # a hand-written __eq__ is asked about values of other kinds too (a suppression may give a plain line
                # number, or None): it must answer, not raise
                from .. import symexec
                eq_fn = next(st for st in cls.body if isinstance(st, ast.FunctionDef) and st.name == '__eq__')
                ctx.analysed_function(m, eq_fn)
                for other, label in ((3, 'an int'), (None, 'None'), ('3', 'a str')):
                    me = symexec.self_obj(m, q, **{a: None for a in assigned})
                    fd = symexec.new_fd(sym, m, calls={'isinstance': lambda o, t: False})
                    got, raised = symexec.run(fd, eq_fn, [other], bound_self=me, what='%s.__eq__' % q)
                    ctx.check(raised is None, 'R7', 'dataclass-eq:%s.%s:against-%s' % (m.name, q, label), m, eq_fn,
                              "%s.__eq__ compared with %s raises %s" % (q, label, raised.kind if raised else ''),
                              "suppress('runtime', 'x', fields={'location': 3}) makes resolve() raise AttributeError")
    ctx.floor('R7', 'dataclasses in pedal.core', n, 1)


def run(ctx):
    sym = Symbols(ctx.repo)
    table = r1_rank_table(ctx, sym)
    r2_rank_function(ctx, sym, table)
    r3_r5_resolvers(ctx, sym)
    model = Model(ctx, sym)
    r4_r6_merge_table(ctx, sym, model)
    r6_protocol(ctx, sym, model)
    r7_field_values_compare_by_content(ctx, sym)
    ctx.assume("Feedback subclasses written by instructors keep the attribute contract of Feedback")
    ctx.assume("list.sort / sorted are stable (CPython guarantee)")
