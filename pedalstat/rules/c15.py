"""C15 - captured output and mocked input exactly record what student code did, in order."""
import ast
import itertools

from ..astutil import dotted, calls, call_name, body_walk, walk_local, is_self_attr, method_calls
from ..fdeval import FD, Obj, Raised, Inconclusive, UNKNOWN, NO_RETURN
from ..loader import AnalysisError, norm
from ..symbols import Symbols
from .c05 import writers_of, is_self_call

SANDBOX = 'pedal.sandbox.sandbox'
COMMANDS = 'pedal.sandbox.commands'


def r1_single_writer(ctx, mod):
    ctx.rule('R1', "raw_output is written only by append_output (+=) and clear_output (= \"\"), output only by "
                   "append_output (extend) and clear_output (clear) - who-writes over the Sandbox class and the "
                   "whole package")
    allowed = {
        'raw_output': {('assign', 'Sandbox.__init__'), ('assign', 'Sandbox.clear_output'),
                       ('assign', 'Sandbox.append_output')},
        'output': {('assign', 'Sandbox.__init__'), ('extend', 'Sandbox.append_output'),
                   ('clear', 'Sandbox.clear_output')},
    }
    for attr, ok_set in allowed.items():
        ws = writers_of(mod, 'Sandbox', attr)
        ctx.floor('R1', 'writers of ' + attr, len(ws), 2)
        for fn, node, kind in ws:
            ctx.check((kind, fn._qualname) in ok_set, 'R1', '%s:%s@%s' % (attr, kind, fn._qualname), mod, node,
                      "sandbox.%s is mutated (%s) outside append_output/clear_output" % (attr, kind),
                      "the recorded output is no longer the in-order concatenation of what student code printed",
                      function=fn._qualname)
    # other modules must not write them through a sandbox reference
    for m in ctx.repo.modules.values():
        if m is mod:
            continue
        for node in ast.walk(m.tree):
            tg = []
            if isinstance(node, ast.Assign):
                tg = node.targets
            elif isinstance(node, ast.AugAssign):
                tg = [node.target]
            for t in tg:
                if isinstance(t, ast.Attribute) and t.attr in ('raw_output',) and 'sandbox' in norm(t.value).lower():
                    ctx.fail('R1', 'external-writer:%s@%s' % (t.attr, m.name), m, node,
                             "sandbox.%s is assigned from outside the Sandbox class" % t.attr,
                             "the recorded output is replaced")


def buffer_stores_verbatim(kind, args, kwargs):
    """An io.StringIO built this way hands back exactly what was written to it: no initial text and no newline
    translation (newline='' or '\\n'; None and '\\r\\n' rewrite what student code printed). PrintingStringIO takes the
    console stream first."""
    if kind.endswith('PrintingStringIO'):
        args = args[1:]
        kwargs = {k: v for k, v in kwargs.items() if k != 'stdout'}
    initial = args[0] if args else kwargs.get('initial_value', '')
    newline = args[1] if len(args) > 1 else kwargs.get('newline', '\n')
    return len(args) <= 2 and set(kwargs) <= {'initial_value', 'newline'} and initial in ('', None) and \
        newline in ('', '\n')


def start_mocking_observations(ctx, sym, mod):
    """_start_mocking executed abstractly for the three print settings; yields (tag, observations)."""
    from .. import symexec
    sm = mod.func('Sandbox._start_mocking')
    for print_setting in (None, True, False):
        rec = symexec.Recorder()
        created = []

        def new_buffer(kind):
            def f(*a, **k):
                o = Obj('buffer:' + kind, ctor_args=a, ctor_kwargs=k)
                created.append(o)
                return o
            return f
        older = Obj('buffer:older')
        builtins = {} if print_setting is None else {'print': print_setting}
        from .c05 import sandbox_self, stack as stack_of
        me = sandbox_self(ctx, sym, mod, stdout=[older],
                          _module_overrides={'__builtins__': builtins, 'os': True}, data={}, modules={})
        for name in ('mock_function', '_reset_builtins', '_mock_builtins', '_start_patches'):
            symexec.method(me, name, rec.stub(name))
        tracker = symexec.marker('tracker-closure')
        symexec.method(me, '_track_inputs', rec.stub('_track_inputs', ret=tracker))
        patch = rec.stub('patch', fn=lambda *a, **k: Obj('patch', target=a[0] if a else None, args=a, kwargs=k))
        fd = symexec.new_fd(sym, mod, calls={'io.StringIO': new_buffer('StringIO'), 'StringIO': new_buffer('StringIO'),
                                             'PrintingStringIO': new_buffer('PrintingStringIO'), 'patch': patch,
                                             'patch.dict': rec.stub('patch.dict', fn=lambda *a, **k: Obj(
                                                 'patch', target=a[0] if a else None, args=a, kwargs=k))},
                            extra={'sys.modules': {'sys': 'real-sys'}})
        context_inputs = symexec.marker('context.inputs')
        _, raised = symexec.run(fd, sm, [Obj('context', inputs=context_inputs)], bound_self=me,
                                what='Sandbox._start_mocking')
        stack = list(stack_of(me, 'stdout'))
        outs = [e for e in rec.named('patch') if e[1] and e[1][0] == 'sys.stdout']
        installs = [e for e in rec.named('mock_function') if e[1][:1] == ('input',)]
        started = [a for e in rec.named('_start_patches') for a in e[1]]
        # a second execution that starts while this one is still active (an instructor's input function calling the
        # student again, a student file importing another): what it hands to _start_patches
        n_first = len(rec.named('_start_patches'))
        created_first = list(created)     # (the nested execution appends to the harness's list too)
        _, raised_nested = symexec.run(fd, sm, [Obj('context', inputs=symexec.marker('nested context.inputs'))],
                                       bound_self=me, what='Sandbox._start_mocking')
        started_nested = [a for e in rec.named('_start_patches')[n_first:] for a in e[1]]
        yield '[print=%r]' % (print_setting,), {
            'raised': raised, 'stack': stack, 'created': created_first, 'started': started, 'rec': rec, 'me': me,
            'started_nested': started_nested, 'raised_nested': raised_nested,
            'installs_tracker': raised is None and len(installs) == 1 and len(installs[0][1]) >= 2
            and installs[0][1][1] is tracker and any(e[1][:1] == (context_inputs,)
                                                      for e in rec.named('_track_inputs')),
            'patched_with_pushed': raised is None and len(stack) == 2 and len(outs) == 1 and len(outs[0][1]) >= 2
            and outs[0][1][1] is stack[-1]}


def r2_per_execution(ctx, mod, sym, rule='R2'):
    ctx.rule(rule, "_start_mocking / _stop_mocking executed abstractly (both print settings, with an older buffer "
                   "already on the stack): start pushes exactly one new, empty buffer and patches sys.stdout with that "
                   "very object; stop pops it and hands its getvalue() and the same context to append_output")
    from .. import symexec
    sm = mod.func('Sandbox._start_mocking')
    st = mod.func('Sandbox._stop_mocking')
    ctx.analysed_function(mod, sm)
    ctx.analysed_function(mod, st)
    for print_setting in (None, True, False):
        rec = symexec.Recorder()
        created = []

        def new_buffer(kind):
            def f(*a, **k):
                o = Obj('buffer:' + kind, ctor_args=a, ctor_kwargs=k, text=symexec.marker('text-of-new-buffer'))
                symexec.method(o, 'getvalue', lambda: o.attrs['text'])
                symexec.method(o, 'flush', lambda: None)
                created.append(o)
                return o
            return f
        older = Obj('buffer:older', text=symexec.marker('text-of-older-buffer'))
        symexec.method(older, 'getvalue', lambda: older.attrs['text'])
        symexec.method(older, 'flush', lambda: None)
        builtins = {} if print_setting is None else {'print': print_setting}
        from .c05 import sandbox_self, stack as stack_of
        me = sandbox_self(ctx, sym, mod, stdout=[older],
                          _module_overrides={'__builtins__': builtins, 'os': True, 'turtle': 'mock-turtle'},
                          data={}, modules={})
        for name in ('mock_function', '_track_inputs', '_reset_builtins', '_mock_builtins', '_start_patches',
                     '_stop_patches', 'append_output'):
            symexec.method(me, name, rec.stub(name))
        context = Obj('context', inputs=symexec.marker('inputs'))
        patch = rec.stub('patch', fn=lambda *a, **k: Obj('patch', target=a[0] if a else None, args=a, kwargs=k))
        fd = symexec.new_fd(sym, mod, calls={'io.StringIO': new_buffer('StringIO'), 'StringIO': new_buffer('StringIO'),
                                             'PrintingStringIO': new_buffer('PrintingStringIO'),
                                             'patch': patch, 'patch.dict': rec.stub('patch.dict', ret=Obj('patch.dict'))},
                            extra={'sys.modules': {'sys': 'real-sys'}})
        tag = '[print=%r]' % (print_setting,)
        _, raised = symexec.run(fd, sm, [context], bound_self=me, what='Sandbox._start_mocking')
        stack = stack_of(me, 'stdout')
        ok = raised is None and len(stack) == 2 and stack[0] is older and len(created) == 1 and stack[1] is created[0] \
            and buffer_stores_verbatim(created[0]._name, created[0].attrs['ctor_args'], created[0].attrs['ctor_kwargs'])
        ctx.check(ok, rule, '_start_mocking:fresh-buffer' + tag, mod, sm,
                  "_start_mocking does not push exactly one new, empty buffer that keeps written text as it is (stack "
                  "afterwards: %r, buffers created: %d%s%s)" % (
                      stack, len(created), '' if raised is None else ', raises ' + raised.kind,
                      '' if not created else ', built with %r %r' % (created[0].attrs['ctor_args'],
                                                                      created[0].attrs['ctor_kwargs'])),
                  "an execution writes into a buffer that already holds another execution's text")
        if ok:
            want_kind = 'buffer:PrintingStringIO' if print_setting is True else 'buffer:StringIO'
            ctx.check(created[0]._name == want_kind, rule, '_start_mocking:buffer-kind' + tag, mod, sm,
                      "with builtins print=%r the buffer is a %s" % (print_setting, created[0]._name),
                      "output is echoed to the real console (or not) against the setting")
            outs = [e for e in rec.named('patch') if e[1] and e[1][0] == 'sys.stdout']
            ctx.check(len(outs) == 1 and len(outs[0][1]) >= 2 and outs[0][1][1] is created[0], rule,
                      '_start_mocking:patches-that-buffer' + tag, mod, sm,
                      "sys.stdout is not patched with the buffer that was pushed for this execution",
                      "printed text lands in another execution's buffer")
            started = rec.named('_start_patches')
            ctx.check(len(started) == 1 and any(isinstance(a, Obj) and a.attrs.get('target') == 'sys.stdout'
                                                for a in started[0][1]), rule, '_start_mocking:starts-patch' + tag,
                      mod, sm, "the sys.stdout patch is not handed to _start_patches exactly once",
                      "output is not captured at all")
            # now stop
            del rec.events[:]
            _, raised = symexec.run(fd, st, [context], bound_self=me, what='Sandbox._stop_mocking')
            ap = rec.named('append_output')
            ok2 = raised is None and stack_of(me, 'stdout') == [older] and len(ap) == 1 and \
                len(ap[0][1]) == 2 and ap[0][1][0] is created[0].attrs['text'] and ap[0][1][1] is context
            ctx.check(ok2, rule, '_stop_mocking:records-popped-buffer' + tag, mod, st,
                      "_stop_mocking does not pop this execution's buffer and append its text for the same context "
                      "(append_output calls: %d)" % len(ap),
                      "an execution's output is lost or attributed to another execution")
            ctx.check(rec.order('_stop_patches', 'append_output')[:1] == ['_stop_patches'], rule,
                      '_stop_mocking:stops-patches-first' + tag, mod, st,
                      "_stop_mocking does not stop the patches before recording the output",
                      "sys.stdout is still the capture buffer while pedal records")


def r2b_echoing_buffer(ctx, mod, sym):
    ctx.rule('R2', "PrintingStringIO.write (the buffer used when real output is allowed) executed abstractly with a "
                   "console that accepts the text and with one whose encoding rejects it: whenever write() returns, the "
                   "text recorded (handed to StringIO.write) is the text the student wrote, character for character")
    from .. import symexec
    mm = ctx.repo.module('pedal.sandbox.mocked')
    fn = mm.func('PrintingStringIO.write')
    ctx.analysed_function(mm, fn)
    for text, console_accepts in (('plain text\n', True), ('caf\u00e9 cr\u00e8me\n', True), ('caf\u00e9 cr\u00e8me\n', False),
                                  ('\u2713 done', False)):
        rec = symexec.Recorder()
        console = Obj('real-console', encoding='ascii')

        def console_write(t, *a, **k):
            rec.events.append(('console.write', (t,), {}))
            if not console_accepts and any(ord(ch) > 127 for ch in t):
                raise Raised('UnicodeEncodeError', "'ascii' codec can't encode character")
            return len(t)
        symexec.method(console, 'write', console_write)
        symexec.method(console, 'flush', lambda *a, **k: None)
        sup = Obj('super')
        symexec.method(sup, 'write', rec.stub('StringIO.write', fn=lambda t, *a, **k: len(t)))
        me = symexec.self_obj(mm, 'PrintingStringIO', _original_stdout=console)
        fd = symexec.new_fd(sym, mm, calls={'super': lambda *a: sup,
                                            'getattr': lambda o, n, *d: o.attrs.get(n, d[0] if d else None)
                                            if isinstance(o, Obj) else getattr(o, n, *d)},
                            extra={'UnicodeEncodeError': UnicodeEncodeError, 'UnicodeError': UnicodeError,
                                   'Exception': Exception, 'ValueError': ValueError})
        got, raised = symexec.run(fd, fn, [text], bound_self=me, what='PrintingStringIO.write')
        recorded = [e[1][0] for e in rec.named('StringIO.write')]
        ok = (raised is not None and not recorded) or (raised is None and recorded == [text])
        ctx.check(ok, 'R2', 'PrintingStringIO.write[%r,console %s]' % (text, 'accepts' if console_accepts else 'rejects'),
                  mm, fn, "the student writes %r; write() %s and the text recorded is %r" % (
                      text, 'raises %s' % raised.kind if raised is not None else 'returns', recorded),
                  "print('caf\u00e9') with real output allowed on an ascii console: raw_output holds 'caf?'")


def r3_append_output_table(ctx, mod):
    ctx.rule('R3', "decision table of append_output (abstract interpretation) over previous raw text x new text: raw "
                   "output is previous + new, the context gets exactly the new text, and the line view grows by the "
                   "right-stripped lines of the right-stripped new text iff the new text is non-empty")
    fn = mod.func('Sandbox.append_output')
    ctx.analysed_function(mod, fn)
    prevs = ['', 'a\n', 'x']
    news = ['', 'b\n', 'c  \n\nd\n', 'no newline', '\n', '   ', 'p\n \nq', 'total: 3\n   \n', 'x\n\t\n \n', 'y \t']
    for prev, new in itertools.product(prevs, news):
        fd = FD()
        prev_lines = ['OLD'] if prev else []
        me = Obj('sandbox', raw_output=prev, output=list(prev_lines))
        cx = Obj('context', output=None)
        try:
            fd.call_function(fn, [new, cx], bound_self=me)
        except (Raised, Inconclusive) as e:
            raise AnalysisError("C15 R3: append_output outside the decidable fragment: %s" % e)
        want_lines = list(prev_lines)
        if new:
            want_lines += [l.rstrip() for l in new.rstrip().split("\n")]
        key = 'append_output[prev=%r,new=%r]' % (prev, new)
        ok = me.attrs['raw_output'] == prev + new and cx.attrs['output'] == new and me.attrs['output'] == want_lines
        ctx.check(ok, 'R3', key, mod, fn,
                  "after appending %r to a sandbox whose raw output was %r: raw=%r context=%r lines=%r; the property "
                  "requires raw=%r context=%r lines=%r" % (new, prev, me.attrs['raw_output'], cx.attrs['output'],
                                                           me.attrs['output'], prev + new, new, want_lines),
                  "run() of a program that prints, then call() of a function that prints nothing: the line view gains "
                  "an empty entry" if (not new and prev) else "an execution printing %r" % new,
                  construct='append_output', sample={'prev': prev, 'new': new, 'lines': me.attrs['output']})


def input_tracker_cells(ctx, mod, sym):
    """The tracker closure built by _track_inputs, executed abstractly over queues x prompts; yields
    (queue, prompt, returned, queue left, recorded inputs, echoed, closure node)."""
    outer = mod.func('Sandbox._track_inputs')
    inner = [n for n in outer.body if isinstance(n, ast.FunctionDef)]
    ctx.require(len(inner) == 1, "_track_inputs no longer defines one tracker closure")
    inner = inner[0]
    ctx.analysed_function(mod, inner)
    ctx.require(inner.args.vararg is not None, "tracker signature changed")
    queues = (['a', 'b'], ['only'], [], ['Ada  ', '21'], ['  lead', ''], ['\ttab\t', ' '], ['MiXed Case'])
    for queue, args in itertools.product(queues, ((), ('Prompt? ',))):
        printed = []
        from ..fdeval import module_resolver
        fd = FD(max_steps=100000, resolver=module_resolver(sym, mod))
        fd.calls['print'] = lambda *a, **k: printed.append(a)
        fd.calls['callable'] = lambda x: callable(x) and not isinstance(x, Obj)
        cx = Obj('context', inputs=[])
        from .. import symexec as _sx
        me = Obj('sandbox', **{k: (list(v) if isinstance(v, list) else (dict(v) if isinstance(v, dict) else v))
                               for k, v in _sx.init_literals(mod, 'Sandbox').items()})
        me.attrs.update(inputs=list(queue), _context=[Obj('older', inputs=['zzz']), cx])
        me.attrs.setdefault('MAXIMUM_INPUTS', 100000)
        me.attrs['__classdef__'] = mod.cls('Sandbox')
        try:
            # _track_inputs(...) is executed itself and returns the tracker closure, which is then called
            tracker = fd.call_function(outer, [cx.attrs['inputs']], bound_self=me)
            if not callable(tracker):
                raise Inconclusive('_track_inputs did not return a callable (%r)' % (tracker,))
            got = tracker(*args)
        except (Raised, Inconclusive) as e:
            raise AnalysisError("input tracker outside the decidable fragment: %s" % e)
        yield queue, (args[0] if args else ''), got, me.attrs['inputs'], cx.attrs['inputs'], printed, inner


def r4_input_fifo(ctx, mod, sym):
    ctx.rule('R4', "decision table of the input tracker closure: queued inputs are returned front-first and removed, "
                   "the prompt is echoed through print in every non-callable branch, the empty queue yields the fixed "
                   "default '0', and the value is appended once to the current context's inputs")
    for queue, prompt, got, left, recorded, printed, inner in input_tracker_cells(ctx, mod, sym):
        want = queue[0] if queue else '0'
        key = 'input[queue=%r,prompt=%r]' % (queue, prompt)
        ok = got == want and left == queue[1:] and recorded == [want] and printed == [(prompt,)]
        ctx.check(ok, 'R4', key, mod, inner,
                  "input(%r) with queue %r returned %r, left queue %r, recorded %r, echoed %r; the property requires "
                  "%r / %r / %r / %r" % (prompt, queue, got, left, recorded, printed, want, queue[1:], [want],
                                         [(prompt,)]),
                  "a program calling input() %s" % ('with queued inputs %r' % queue if queue else 'more often than '
                                                    'inputs were queued'), construct='_input_tracker')
    # installed for every execution, bound to the context's inputs
    sm = mod.func('Sandbox._start_mocking')
    for tag, ob in start_mocking_observations(ctx, sym, mod):
        ctx.check(ob['installs_tracker'], 'R4', '_start_mocking:installs-tracker' + tag, mod, sm,
                  "at the start of an execution `input` is not replaced (once) by the tracker built for this "
                  "execution's own input record", "student input() reads the real stdin, or the inputs are recorded "
                  "under another execution")


def r5_queue_operations(ctx, mod):
    ctx.rule('R5', "decision table of set_input (abstract interpretation) over input forms {None, str, int, float, "
                   "bool, list, tuple} x clear x previous queue; clear_input() = set_input(None); queue_input calls "
                   "set_input(inputs, clear=False); run()/call() executed abstractly hand an explicit inputs= (an "
                   "empty one included) to set_input before executing and leave the queue alone for inputs=None")
    fn = mod.func('Sandbox.set_input')
    ctx.analysed_function(mod, fn)
    forms = [None, 'x', 5, 2.5, True, ['a', 1], ('b', 'c'), [], 'x  ', [' a ', 'b\t', '']]
    for inp, clear, prev in itertools.product(forms, (True, False), ([], ['q'])):
        fd = FD()
        fd.calls['isinstance'] = lambda o, t: isinstance(o, t)
        me = Obj('sandbox', inputs=list(prev))
        try:
            fd.call_function(fn, [inp], {'clear': clear}, bound_self=me)
        except (Raised, Inconclusive) as e:
            raise AnalysisError("C15 R5: set_input outside the decidable fragment: %s" % e)
        if inp is None:
            want = []
        else:
            add = [inp] if isinstance(inp, str) else [str(inp)] if isinstance(inp, (int, float, bool)) else \
                [str(v) for v in inp]
            want = ([] if clear else list(prev)) + add
        key = 'set_input[%r,clear=%r,prev=%r]' % (inp, clear, prev)
        ctx.check(me.attrs['inputs'] == want, 'R5', key, mod, fn,
                  "queue is %r, the property requires %r" % (me.attrs['inputs'], want),
                  "set_input(%r, clear=%r) on a sandbox whose queue was %r" % (inp, clear, prev),
                  construct='set_input')
    # histories: the argument is the current queue itself (get_input() hands out that very list), and the queue was
    # replaced by a function (set_input(callable), run(real_io=True)) before a list is queued again
    for tag, prepare, want in (
            ('the queue itself', lambda me: me.attrs['inputs'], ['q', 'r']),
            ('a tuple of the queue', lambda me: tuple(me.attrs['inputs']), ['q', 'r'])):
        fd = FD()
        fd.calls['isinstance'] = lambda o, t: isinstance(o, t)
        me = Obj('sandbox', inputs=['q', 'r'])
        try:
            fd.call_function(fn, [prepare(me)], {'clear': True}, bound_self=me)
            got = me.attrs['inputs']
        except Raised as e:
            got = 'raises %s' % e.kind
        except Inconclusive as e:
            raise AnalysisError("C15 R5: set_input outside the decidable fragment: %s" % e)
        ctx.check(got == want, 'R5', 'set_input[%s]' % tag, mod, fn,
                  "set_input(%s) on a sandbox whose queue was ['q', 'r'] leaves %r, the property requires %r" % (
                      tag, got, want), "set_input(get_input()): the next input() returns the default '0' instead of 'q'",
                  construct='set_input')
    for new_inputs, want in ((['a'], ['a']), ('b', ['b']), (None, [])):
        fd = FD()
        fd.calls['isinstance'] = lambda o, t: isinstance(o, t)
        answer = lambda prompt: 'typed'
        answer._fd_plain_function = True
        me = Obj('sandbox', inputs=answer)
        try:
            fd.call_function(fn, [new_inputs], {'clear': True}, bound_self=me)
            got = me.attrs['inputs']
        except Raised as e:
            got = 'raises %s' % e.kind
        except Inconclusive as e:
            raise AnalysisError("C15 R5: set_input outside the decidable fragment: %s" % e)
        ctx.check(got == want, 'R5', 'set_input[%r after a function]' % (new_inputs,), mod, fn,
                  "set_input(%r) on a sandbox whose inputs were answered by a function leaves %r, the property requires "
                  "%r" % (new_inputs, got, want),
                  "set_input(lambda prompt: 'z'); set_input(['a']) raises AttributeError: 'function' object has no "
                  "attribute 'clear'", construct='set_input')
    # run(inputs=...) / call(inputs=...): an explicit `inputs` (an empty one included) becomes the queue before the
    # student code runs; `inputs=None` leaves the queue alone
    from .. import symexec
    sym = Symbols(ctx.repo)
    for entry, args in (('run', ['print(input())']), ('call', ['ask'])):
        efn = mod.func('Sandbox.' + entry)
        ctx.analysed_function(mod, efn)
        for inputs in (None, [], '', ['a', 'b'], 'a', ()):
            rec = symexec.Recorder()
            submission = Obj('submission', main_file='answer.py', instructor_file='on_run.py',
                             files={'answer.py': 'x = 1'})
            me = symexec.self_obj(mod, 'Sandbox', threaded=False, report=Obj('report', submission=submission),
                                  functions={'ask': 'fn'}, data={'ask': 'fn'}, target=None, exception=None,
                                  _next_context_id=3, inputs=['queued earlier'])
            for name in ('set_input', '_execute', 'allow_function', 'clear_mocked_function', 'clear_input',
                         '_purge_temporaries'):
                symexec.method(me, name, rec.stub(name))
            symexec.method(me, '_construct_call', rec.stub('_construct_call', ret=('actual', 'student', 'arguments')))
            symexec.method(me, '_handle_result', rec.stub('_handle_result', ret=Obj('result')))
            fd = symexec.new_fd(sym, mod)
            _, raised = symexec.run(fd, efn, args, {'inputs': inputs}, bound_self=me, what='Sandbox.' + entry)
            order = [e[0] for e in rec.events if e[0] in ('set_input', '_execute')]
            sets = rec.named('set_input')
            if inputs is None:
                ok = raised is None and not sets and '_execute' in order
                want = 'must leave the queue alone and execute'
            else:
                ok = raised is None and len(sets) == 1 and order[:1] == ['set_input'] and '_execute' in order and \
                    (list(sets[0][1]) + list(sets[0][2].values()))[:1] == [inputs]
                want = 'must call set_input(%r) once before executing' % (inputs,)
            ctx.check(ok, 'R5', '%s(inputs=%r)' % (entry, inputs), mod, efn,
                      "Sandbox.%s(..., inputs=%r) performs %s%s; it %s" % (
                          entry, inputs, [(e[0], e[1][:1]) for e in rec.events if e[0] in ('set_input', '_execute')],
                          '' if raised is None else ' and raises %s' % raised.kind, want),
                      "set_input(['stale']); run(inputs=[]) - the student's input() reads 'stale' although the "
                      "instructor passed an empty queue")
    # the queue commands and the two clear operations, executed abstractly on a model sandbox whose set_input is the
    # real one: what matters is the queue (and the two output views) afterwards
    cmod = ctx.repo.module(COMMANDS)

    def model_sandbox(queue):
        return symexec.self_obj(mod, 'Sandbox', inputs=list(queue), raw_output='old text', output=['old text'])

    def queue_of(sb):
        q = sb.attrs.get('inputs')
        return list(q) if isinstance(q, (list, tuple)) else ([] if q is None else q)

    def b_isinstance(o, t):
        return isinstance(o, t) if isinstance(t, (type, tuple)) else False
    cases = [
        ('queue_input', ('a', 'b'), {}, ['q'], ['q', 'a', 'b']),
        ('queue_input', ('a',), {}, [], ['a']),
        ('queue_input', (), {}, ['q'], ['q']),
        ('set_input', (['a', 'b'],), {}, ['q'], ['a', 'b']),
        ('set_input', (['a'],), {'clear': False}, ['q'], ['q', 'a']),
        ('set_input', (['a'],), {'clear': True}, ['q'], ['a']),
        ('set_input', ('a',), {}, ['q'], ['a']),
        ('clear_input', (), {}, ['q', 'r'], []),
    ]
    for fname, args, kwargs, before, want in cases:
        fn = cmod.func(fname)
        ctx.analysed_function(cmod, fn)
        sb = model_sandbox(before)
        rep = Obj('report')
        symexec.method(rep, '__getitem__', lambda k, sb=sb: {'sandbox': sb})
        fd = symexec.new_fd(sym, cmod, calls={'isinstance': b_isinstance}, extra={'MAIN_REPORT': rep})
        _, raised = symexec.run(fd, fn, list(args), dict(kwargs, report=rep), what='commands.' + fname)
        got = queue_of(sb)
        ctx.check(raised is None and got == want, 'R5', 'commands.%s%r%s[queue=%r]' % (
            fname, args, ('[%s]' % ','.join('%s=%r' % kv for kv in kwargs.items())) if kwargs else '', before), cmod, fn,
                  "%s(%s) on a sandbox whose queue was %r leaves the queue %r%s; expected %r" % (
                      fname, ', '.join([repr(a_) for a_ in args] + ['%s=%r' % kv for kv in kwargs.items()]), before,
                      got, '' if raised is None else ' (raises %s)' % raised.kind, want),
                  "queue_input drops previously queued inputs / set_input(..., clear=False) clears anyway / "
                  "clear_input leaves inputs queued")
    ci = mod.func('Sandbox.clear_input')
    ctx.analysed_function(mod, ci)
    sb = model_sandbox(['q', 'r'])
    _, raised = symexec.run(symexec.new_fd(sym, mod, calls={'isinstance': b_isinstance}), ci, [], bound_self=sb,
                            what='Sandbox.clear_input')
    ctx.check(raised is None and queue_of(sb) == [], 'R5', 'clear_input', mod, ci,
              "Sandbox.clear_input() leaves the queue %r" % (queue_of(sb),), "clear_input leaves inputs queued")
    co = mod.func('Sandbox.clear_output')
    ctx.analysed_function(mod, co)
    sb = model_sandbox([])
    # the executions so far keep their own records: clearing the sandbox-wide views does not rewrite history
    records = [Obj('context', output='Hello Ada\n', inputs=['Ada']), Obj('context', output='', inputs=[])]
    for attr_, value_ in symexec.init_literals(mod, 'Sandbox').items():
        sb.attrs.setdefault(attr_, value_)
    sb.attrs['_context'] = list(records)
    _, raised = symexec.run(symexec.new_fd(sym, mod), co, [], bound_self=sb, what='Sandbox.clear_output')
    ctx.check(raised is None and sb.attrs.get('raw_output') == '' and sb.attrs.get('output') == [], 'R5',
              'clear_output', mod, co, "clear_output leaves raw_output=%r output=%r; both views must be empty" % (
                  sb.attrs.get('raw_output'), sb.attrs.get('output')), "stale output remains")
    ctx.check(raised is None and records[0].attrs.get('output') == 'Hello Ada\n' and records[1].attrs.get('output') == ''
              and records[0].attrs.get('inputs') == ['Ada'] and sb.attrs.get('_context') == records, 'R5',
              'clear_output:keeps-execution-records', mod, co,
              "after clear_output the record of an earlier execution reads output=%r inputs=%r (it printed 'Hello "
              "Ada\\n' and read 'Ada')" % (records[0].attrs.get('output'), records[0].attrs.get('inputs')),
              "greeting = call('greet'); clear_output(); assert_output(greeting, 'Hello Ada') reports that the function "
              "did not print")

def r6_wrappers_pass_inputs_through(ctx, sym):
    ctx.rule('R6', "the module-level commands (pedal.sandbox.commands.run / call), executed abstractly with a recording "
                   "sandbox: the `inputs` they hand to Sandbox.run / Sandbox.call is the object they were given - '' "
                   "(one empty line), [] and () (empty the queue), None (leave the queue alone), a string, a list - so "
                   "what the execution's record shows is what was queued")
    from .. import symexec
    cmod = ctx.repo.module('pedal.sandbox.commands')
    tool = sym.const(cmod, ast.parse('TOOL_NAME', mode='eval').body)
    for wname, positional in (('run', []), ('call', ['student_function'])):
        fn = cmod.func(wname)
        ctx.analysed_function(cmod, fn)
        for given in ('', [], (), None, 'Ada', ['Ada', 'Bob']):
            rec = symexec.Recorder()
            sb = Obj('sandbox')
            symexec.method(sb, wname, rec.stub('Sandbox.' + wname, ret=sb))
            report = Obj('report')
            report.attrs['method:__getitem__'] = lambda k: {'sandbox': sb} if k == tool else None
            fd = symexec.new_fd(sym, cmod)
            _, raised = symexec.run(fd, fn, list(positional), {'inputs': given, 'report': report},
                                    what='commands.%s' % wname)
            made = rec.named('Sandbox.' + wname)
            handed = made[0][2].get('inputs', _ABSENT) if len(made) == 1 else _ABSENT
            ok = raised is None and len(made) == 1 and (handed is given or (
                isinstance(given, (str, tuple, type(None))) and handed is not _ABSENT and handed == given
                and type(handed) is type(given)))
            ctx.check(ok, 'R6', 'commands.%s[inputs=%r]' % (wname, given), cmod, fn,
                      "commands.%s(inputs=%r) hands Sandbox.%s %s" % (
                          wname, given, wname, 'inputs=%r' % (handed,) if handed is not _ABSENT else (
                              'nothing (raises %s)' % raised.kind if raised is not None else 'no inputs argument')),
                      "queue_input('Edsger'); run(inputs=[]) - the leftover name is still handed to the program; "
                      "run(inputs='') - input() returns the default '0' instead of the empty line")


_ABSENT = object()


def run(ctx):
    mod = ctx.repo.module(SANDBOX)
    sym = Symbols(ctx.repo)
    r1_single_writer(ctx, mod)
    r2_per_execution(ctx, mod, sym)
    r2b_echoing_buffer(ctx, mod, sym)
    r3_append_output_table(ctx, mod)
    r4_input_fifo(ctx, mod, sym)
    r5_queue_operations(ctx, mod)
    r6_wrappers_pass_inputs_through(ctx, sym)
    ctx.assume("output that bypasses sys.stdout (sys.__stdout__, os.write) is not captured; with C05.R1 "
               "_stop_mocking runs on every exit")
