"""C06 - sandboxed execution is observationally equivalent to plain execution.

Equivalence itself quantifies over the run-time behaviour of every program and is NOT decided here. What is decided
are the structural clauses the equivalence passes through - each a necessary condition (breaking it changes what the
student program computes or what a call receives) whose truth is in the shape of pedal's own code:

  R1  the text given to run() reaches compile() unmodified, is compiled in 'exec' mode and executed in the student
      namespace with __name__ == '__main__';
  R2  call(): every argument reaches the student function as the value given - by a literal text that evaluates back
      to an equal value of the same type, or as a temporary variable bound to the very object;
  R3  the value handed back by call()/evaluate() is the object the student code stored in the target;
  R4  the line reported for an exception is the raising line of the innermost traceback entry, however deep;
  R5  the buffer standing in for sys.stdout records written text verbatim (no newline translation);
  R6  input() returns the queued text itself (blanks, tabs and case kept);
  R7  an allowed import is handed to the real __import__ with the very arguments the import statement produced;
  R8  ending an execution removes or rebinds none of the names the program defined;
  R9  nothing in pedal.sandbox changes interpreter-wide state a student program can observe (random, recursion limit,
      working directory, locale, decimal context, warnings filters).
"""
import ast

from ..fdeval import Obj, Raised, Inconclusive
from ..loader import AnalysisError, norm
from ..symbols import Symbols

SANDBOX = 'pedal.sandbox.sandbox'


class _MyInt(int):
    """A subclass whose repr is that of its base: the literal text does not bring the class back."""


class _Instructor:
    """An instructor-side object whose repr is short and looks like code."""

    def __repr__(self):
        return 'P()'


_SAFE_BUILTINS = {'range': range, 'frozenset': frozenset, 'set': set, 'bytearray': bytearray, 'Ellipsis': Ellipsis,
                  'complex': complex}


def _eval_builtin_text(text):
    """Value of a text made of literals, containers, signs and calls of always-available builtin constructors; anything
    else (a bare name such as inf or nan, a call of an instructor-side class) raises ValueError."""
    tree = ast.parse(text, mode='eval').body

    def ev(n):
        if isinstance(n, ast.Name):
            if n.id in _SAFE_BUILTINS and not callable(_SAFE_BUILTINS[n.id]):
                return _SAFE_BUILTINS[n.id]
            raise ValueError('name ' + n.id)
        if isinstance(n, ast.Call):
            if isinstance(n.func, ast.Name) and callable(_SAFE_BUILTINS.get(n.func.id)) and not n.keywords:
                return _SAFE_BUILTINS[n.func.id](*[ev(a) for a in n.args])
            raise ValueError('call')
        if isinstance(n, (ast.List, ast.Tuple, ast.Set)):
            items = [ev(e) for e in n.elts]
            return {ast.List: list, ast.Tuple: tuple, ast.Set: set}[type(n)](items)
        if isinstance(n, ast.Dict):
            return {ev(k): ev(v) for k, v in zip(n.keys, n.values)}
        return ast.literal_eval(n)
    return ev(tree)


def r1_source_unmodified(ctx, sym, mod):
    ctx.rule('R1', "Sandbox._execute executed abstractly: compile() receives the very text it was given (mode 'exec', "
                   "the given file name), exec() receives that code object and the sandbox's own namespace, in which "
                   "__name__ is '__main__'; Sandbox.run hands _execute the submission's text itself")
    from .c05 import execute_scenarios
    from .. import symexec
    n = 0
    text0 = '\nx = 1  \n\n'      # leading/trailing whitespace is part of the program (line numbers)
    for where, kind, ob in execute_scenarios(ctx, sym, mod, code=text0):
        if where != 'none':
            continue
        n += 1
        rec, me = ob['rec'], ob['me']
        comp = rec.named('compile')
        ex = rec.named('exec')
        # (the compile stub returns a marker: exec must receive that marker and the sandbox's data dict)
        code_obj_ok = len(ex) == 1 and len(ex[0][1]) >= 2 and ex[0][1][1] is me.attrs['data']
        ctx.check(ob['raised'] is None and len(comp) == 1 and comp[0][1][:1] == (text0,) and
                  'exec' in list(comp[0][1]) + list(comp[0][2].values()) and
                  'answer.py' in list(comp[0][1]) + list(comp[0][2].values()), 'R1', '_execute:compiles-the-text-given',
                  mod, mod.func('Sandbox._execute'),
                  "compile() is called with %r; the student's text must reach it unmodified, under its own file name, in "
                  "'exec' mode" % ([c[1] for c in comp],),
                  "a program whose behaviour depends on its exact text (string literals, line numbers in tracebacks)")
        ctx.check(code_obj_ok and me.attrs['data'].get('__name__') == '__main__', 'R1',
                  '_execute:executes-in-student-namespace', mod, mod.func('Sandbox._execute'),
                  "exec() does not run the compiled program in the sandbox's own namespace with __name__ == '__main__' "
                  "(%d exec call(s), __name__ = %r)" % (len(ex), me.attrs['data'].get('__name__')),
                  "`if __name__ == '__main__': main()` does not run; globals are not kept")
    ctx.floor('R1', '_execute normal scenario', n, 1)
    # compile() called from a module inherits that module's own `from __future__ import ...` compiler flags unless
    # dont_inherit is set: the student's program would be compiled under a feature it did not ask for
    import __future__ as _future
    import sys as _sys
    effective = []
    for node in mod.tree.body:
        if isinstance(node, ast.ImportFrom) and node.module == '__future__':
            for a in node.names:
                feature = getattr(_future, a.name, None)
                due = feature.getMandatoryRelease() if feature is not None else None
                if feature is not None and (due is None or due > _sys.version_info):
                    effective.append(a.name)
    sites = 0
    for fn in mod.functions.values():
        for c in ast.walk(fn):
            if isinstance(c, ast.Call) and isinstance(c.func, ast.Name) and c.func.id == 'compile':
                sites += 1
                kw = {k.arg: k.value for k in c.keywords}
                dont = kw.get('dont_inherit', c.args[4] if len(c.args) > 4 else None)
                flags = kw.get('flags', c.args[3] if len(c.args) > 3 else None)
                isolated = isinstance(dont, ast.Constant) and bool(dont.value)
                ctx.check(isolated or not effective, 'R1', '%s:compile-inherits-future%s' % (fn._qualname, effective), mod,
                          c, "compile() in %s inherits the compiler flags of `from __future__ import %s` at the top of "
                          "the sandbox module (no dont_inherit=True)" % (fn._qualname, ', '.join(effective)),
                          "`def area(r: flaot)` raises NameError in CPython and runs to the end in the sandbox; "
                          "f.__annotations__ holds strings")
                ctx.check(flags is None or (isinstance(flags, ast.Constant) and flags.value == 0), 'R1',
                          '%s:compile-flags' % fn._qualname, mod, c,
                          "compile() in %s is given compiler flags (%s)" % (fn._qualname, ast.unparse(flags) if flags is not None else ''),
                          "the student's program is compiled under options a plain run does not use")
    ctx.floor('R1', 'compile() call sites in the sandbox module', sites, 1)
    run_fn = mod.func('Sandbox.run')
    ctx.analysed_function(mod, run_fn)
    rec = symexec.Recorder()
    text = '\n\nprint(1)  \n\n'
    submission = Obj('submission', main_file='answer.py', instructor_file='on_run.py', files={'answer.py': text})
    me = symexec.self_obj(mod, 'Sandbox', threaded=False, report=Obj('report', submission=submission), target=None,
                          exception=None)
    for name in ('set_input', '_execute', 'allow_function', 'clear_mocked_function', 'clear_input'):
        symexec.method(me, name, rec.stub(name))
    _, raised = symexec.run(symexec.new_fd(sym, mod), run_fn, [], bound_self=me, what='Sandbox.run')
    runs = rec.named('_execute')
    ctx.check(raised is None and len(runs) == 1 and runs[0][1][:1] == (text,) and runs[0][1][0] is text and 'answer.py' in runs[0][1], 'R1',
              'run:hands-over-the-submission-text', mod, run_fn,
              "run() executes %r instead of the main file's text under the main file's name" % (
                  [r[1][:2] for r in runs],), "the program that runs is not the one submitted")


def r2_arguments(ctx, sym, mod):
    ctx.rule('R2', "Sandbox._make_temporary / _construct_call executed abstractly over argument values (ints, bools, None, "
                   "strings with quotes and newlines, floats incl. inf/nan/-0.0, complex, bytes, nested containers, "
                   "range, frozenset, an instructor-side object with a code-like repr): each argument is passed either "
                   "as a text of literals and always-available builtin constructors that evaluates back to an equal "
                   "value of the same type, or as a name bound in the student namespace to the very object")
    from .. import symexec
    mt = mod.func('Sandbox._make_temporary')
    cc = mod.func('Sandbox._construct_call')
    ctx.analysed_function(mod, mt)
    ctx.analysed_function(mod, cc)
    inf = float('inf')
    values = [0, 7, -3, True, None, 'text', "it's \"quoted\"\n", '', 2.5, -0.0, 1e300, inf, -inf, float('nan'),
              1e400, complex(1, 2), complex(0, inf), b'bytes', [1, 2], [1, inf], (1, 'a'), {'k': 1}, {'k': float('nan')},
              {1, 2}, set(), frozenset({1}), range(3), _Instructor(), [_Instructor()], Ellipsis, 10 ** 30, _MyInt(5)]

    def faithful(text, value, data):
        if text in data:
            return data[text] is value, 'a temporary'
        try:
            rebuilt = _eval_builtin_text(text)
        except (ValueError, SyntaxError, TypeError, MemoryError, RecursionError):
            return False, 'the text %r, which names something the student namespace need not define' % text
        same = type(rebuilt) is type(value) and rebuilt == value and repr(rebuilt) == repr(value)
        return same, 'the text %r, which evaluates to %r' % (text, rebuilt)

    def new_self():
        attrs = dict(symexec.init_literals(mod, 'Sandbox'))
        attrs.update(data={}, _temporary_variables=set(), _backup_variables={})
        return symexec.self_obj(mod, 'Sandbox', **attrs)

    def calls_():
        return {'isinstance': lambda o, t: False if isinstance(t, str) or not isinstance(t, (type, tuple)) else
                isinstance(o, t), 'repr': repr, 'len': len, 'str': str,
                'zip_longest': lambda a, b: [(x, y) for x, y in __import__('itertools').zip_longest(a, b)],
                'enumerate': lambda x: list(enumerate(x))}
    for i, value in enumerate(values):
        me = new_self()
        fd = symexec.new_fd(sym, mod, calls=calls_(), extra={'SandboxVariable': 'SandboxVariable-class'})
        got, raised = symexec.run(fd, mt, ['arg', str(i), value], bound_self=me, what='Sandbox._make_temporary')
        ok, how = (False, 'an exception (%s)' % raised.kind) if raised is not None else (
            faithful(got, value, me.attrs['data']) if isinstance(got, str) else (False, repr(got)))
        ctx.check(ok, 'R2', '_make_temporary[%s]' % (repr(value)[:30],), mod, mt,
                  "the argument %r is passed to the student function as %s" % (value, how),
                  "call('f', float('inf')) raises NameError (name 'inf' is not defined) inside the sandbox instead of "
                  "calling f with infinity")
    # the same mutable object handed over again after it changed: the second call sees its value of that moment
    for first, change in (([], lambda v: v.append(5)), ({'k': 1}, lambda v: v.update(j=2)), ({1}, lambda v: v.add(2)),
                          ([1, 2], lambda v: v.clear())):
        me = new_self()
        fd = symexec.new_fd(sym, mod, calls=calls_(), extra={'SandboxVariable': 'SandboxVariable-class'})
        value = first
        before = repr(value)
        symexec.run(fd, mt, ['arg', '0', value], bound_self=me, what='Sandbox._make_temporary')
        change(value)
        got, raised = symexec.run(fd, mt, ['arg', '0', value], bound_self=me, what='Sandbox._make_temporary')
        ok, how = (False, 'an exception (%s)' % raised.kind) if raised is not None else (
            faithful(got, value, me.attrs['data']) if isinstance(got, str) else (False, repr(got)))
        ctx.check(ok, 'R2', '_make_temporary[%s passed again after it changed]' % before, mod, mt,
                  "the argument %r (it was %s at an earlier call with the same object) is passed as %s" % (
                      value, before, how),
                  "cart = []; call('total', cart); cart.append(5); call('total', cart) computes total([])")
    # the call text as a whole: positional and keyword arguments, mixed
    me = new_self()
    fd = symexec.new_fd(sym, mod, calls=calls_(), extra={'SandboxVariable': 'SandboxVariable-class'})
    args, kwargs = (3, inf, 'a'), {'limit': float('nan'), 'names': ['x']}
    got, raised = symexec.run(fd, cc, ['f', args, kwargs, [], {}, 'result'], bound_self=me,
                              what='Sandbox._construct_call')
    ok, why = False, 'raises %s' % raised.kind if raised is not None else repr(got)
    if raised is None and isinstance(got, tuple) and got and isinstance(got[0], str):
        try:
            tree = ast.parse(got[0])
            st = tree.body[0]
            call = st.value if isinstance(st, ast.Assign) else None
            ok = isinstance(st, ast.Assign) and ast.unparse(st.targets[0]) == 'result' and isinstance(call, ast.Call) \
                and ast.unparse(call.func) == 'f' and len(call.args) == 3 and \
                [k.arg for k in call.keywords] == ['limit', 'names']
            if ok:
                for node, value in list(zip(call.args, args)) + [(k.value, kwargs[k.arg]) for k in call.keywords]:
                    good, how = faithful(ast.unparse(node), value, me.attrs['data'])
                    if not good:
                        ok, why = False, 'argument %r is passed as %s' % (value, how)
                        break
        except SyntaxError as e:
            ok, why = False, 'the call text %r is not valid Python (%s)' % (got[0], e)
    ctx.check(ok, 'R2', '_construct_call:arguments', mod, cc,
              "the call text built for f(3, inf, 'a', limit=nan, names=['x']) with target 'result' is wrong: %s" % why,
              "call('f', 3, float('inf'), 'a', limit=float('nan'), names=['x'])")


def r3_result(ctx, sym, mod, rule='R3'):
    ctx.rule(rule, "Sandbox._handle_result executed abstractly: without an exception, the value handed back (inside the "
                   "result proxy, or bare when proxying is off) is the object the student code stored in the target - "
                   "also when the same code is observed twice in a row and the second value merely compares equal to "
                   "the first (1 then True, 2 then 2.0)")
    from .. import symexec
    fn = mod.func('Sandbox._handle_result')
    ctx.analysed_function(mod, fn)
    for proxied in (True, False):
        for first, second in ((Obj('the-returned-object'), None), (1, True), (2, 2.0), (0, False), ('a', 'a')):
            rec = symexec.Recorder()
            other = Obj('another-variable')
            attrs = dict(symexec.init_literals(mod, 'Sandbox'))
            context = Obj('context', kind='evaluate', target='_', code='score', id=4, __open__=True)
            attrs.update(data={'_': first, 'other': other}, exception=None, result=None, _context=[context])
            me = symexec.self_obj(mod, 'Sandbox', **attrs)
            proxy = rec.stub('proxy', fn=lambda v, *a, **k: Obj('proxy', wrapped=v, value=v, _actual_value=v))
            proxy._fd_callable = True
            me.attrs['result_proxy_class'] = proxy if proxied else None
            fd = symexec.new_fd(sym, mod, calls={'type': lambda o: proxy if isinstance(o, Obj) and o._name == 'proxy'
                                                 else type(o)})
            got, raised = symexec.run(fd, fn, ['_', 4], bound_self=me, what='Sandbox._handle_result')
            value = first
            if second is not None and raised is None:
                me.attrs['data']['_'] = second
                me.attrs['_context'].append(Obj('context', kind='evaluate', target='_', code='score', id=5,
                                                __open__=True))
                got, raised = symexec.run(fd, fn, ['_', 5], bound_self=me, what='Sandbox._handle_result')
                value = second
            inner = got.attrs.get('wrapped') if proxied and isinstance(got, Obj) else got
            same = inner is value or (not isinstance(value, Obj) and type(inner) is type(value) and inner == value)
            tag = '%s%s' % ('proxied' if proxied else 'bare', '' if second is None else ',%r then %r' % (first, second))
            ctx.check(raised is None and same, rule, '_handle_result[%s]' % tag, mod, fn,
                      "the value handed back wraps %r, not the object stored in the target (%r)%s" % (
                          inner, value, '' if raised is None else ' - raises %s' % raised.kind),
                      "evaluate('flag') after the student's flag went from 1 to True still shows 1: str() gives '1'")


def r3b_result_through_entry_points(ctx, sym, mod, rule='R3'):
    ctx.rule(rule, "... and through the entry points: Sandbox.evaluate and Sandbox.call executed abstractly (the execution "
                   "itself stubbed: it stores the student's object in the target) unthreaded, threaded by argument and "
                   "threaded by the sandbox's own setting: the value handed back wraps the very object the student code "
                   "produced, not a copy of it")
    from .. import symexec
    for entry in ('evaluate', 'call'):
        fn = mod.func('Sandbox.' + entry)
        ctx.analysed_function(mod, fn)
        for threaded_arg, threaded_attr in ((None, False), (None, True), (True, False), (False, True)):
            rec = symexec.Recorder()
            produced = Obj('the-object-the-student-code-produced')
            attrs = dict(symexec.init_literals(mod, 'Sandbox'))
            attrs.update(data={'f': Obj('student-function')}, functions={'f'}, exception=None, result=None, _context=[],
                         threaded=threaded_attr, _next_context_id=7,
                         report=Obj('report', submission=Obj('submission', instructor_file='on_run.py')))
            me = symexec.self_obj(mod, 'Sandbox', **attrs)

            def execute(*a, **k):
                rec.events.append(('_execute', a, k))
                me.attrs['data'][me.attrs.get('target', '_')] = produced
                me.attrs['_context'].append(Obj('context', id=7, __open__=True))
                return me
            symexec.method(me, '_execute', execute)
            symexec.method(me, '_construct_call', lambda *a, **k: ('_ = f()', 'f()', {}))
            symexec.method(me, '_purge_temporaries', lambda *a, **k: None)
            symexec.method(me, 'set_input', lambda *a, **k: None)
            proxy = rec.stub('proxy', fn=lambda v, *a, **k: Obj('proxy', wrapped=v, value=v, _actual_value=v))
            proxy._fd_callable = True
            me.attrs['result_proxy_class'] = proxy
            copied = lambda v, *a, **k: Obj('a-copy', of=v)
            fd = symexec.new_fd(sym, mod, calls={'deepcopy': copied, 'copy.deepcopy': copied, 'copy.copy': copied,
                                                 'copy': copied})
            kwargs = {} if threaded_arg is None else {'threaded': threaded_arg}
            got, raised = symexec.run(fd, fn, ['f'] if entry == 'call' else ['score'], kwargs, bound_self=me,
                                      what='Sandbox.' + entry)
            inner = got.attrs.get('wrapped') if isinstance(got, Obj) else got
            tag = '%s[threaded=%r,sandbox.threaded=%r]' % (entry, threaded_arg, threaded_attr)
            ctx.check(raised is None and inner is produced, rule, tag, mod, fn,
                      "%s hands back a proxy of %r, not of the object the student code stored in the target%s" % (
                          entry, inner, '' if raised is None else ' (raises %s)' % raised.kind),
                      "sandbox.threaded = True (the GradeScope default); first = call('make_node'); "
                      "call('all_nodes')  ->  `first in nodes` is False, ranks[first] raises KeyError")


def r4_exception_line(ctx, sym):
    ctx.rule('R4', "ExpandedTraceback.__init__ executed abstractly on model tracebacks 1 to 1500 calls deep: the line "
                   "reported for an exception is the raising line of the innermost entry (the rule of C17.R2, decided "
                   "here for the clause 'the same kind of exception raised at the same source line')")
    from .c17 import traceback_line_rule
    traceback_line_rule(ctx, sym, 'R4')


def r5_output_verbatim(ctx, sym, mod):
    ctx.rule('R5', "Sandbox._start_mocking executed abstractly for the three print settings: the buffer that stands in "
                   "for sys.stdout is built without initial text and without newline translation, so what the program "
                   "writes is what is recorded")
    from .c15 import start_mocking_observations, buffer_stores_verbatim
    sm = mod.func('Sandbox._start_mocking')
    ctx.analysed_function(mod, sm)
    n = 0
    for tag, ob in start_mocking_observations(ctx, sym, mod):
        n += 1
        made = ob['created']
        ok = ob['raised'] is None and len(made) == 1 and buffer_stores_verbatim(
            made[0]._name, made[0].attrs['ctor_args'], made[0].attrs['ctor_kwargs'])
        ctx.check(ok, 'R5', '_start_mocking:buffer-keeps-text-verbatim' + tag, mod, sm,
                  "the capture buffer is built as %s" % (
                      ['%s(%s)' % (b._name, ', '.join([repr(a) for a in b.attrs['ctor_args']] + [
                          '%s=%r' % kv for kv in b.attrs['ctor_kwargs'].items()])) for b in made],),
                  "print('step', end='\\r') is recorded with a line feed")
    ctx.floor('R5', 'print settings', n, 3)


def r6_inputs_verbatim(ctx, sym, mod):
    ctx.rule('R6', "the input tracker closure executed abstractly over queues whose entries have leading/trailing "
                   "blanks, tabs, mixed case or are empty: input() hands the student program the queued text itself")
    from .c15 import input_tracker_cells
    n = 0
    for queue, prompt, got, left, recorded, printed, inner in input_tracker_cells(ctx, mod, sym):
        if not queue:
            continue
        n += 1
        ctx.check(got == queue[0], 'R6', 'input-returns-the-queued-text[%r,prompt=%r]' % (queue[0], prompt), mod, inner,
                  "with %r queued, input(%r) returns %r" % (queue[0], prompt, got),
                  "name = input(); print(len(name)) with the input 'Ada  ' prints 3, plain Python prints 5")
    ctx.floor('R6', 'queued inputs', n, 8)


def r7_imports_delegated(ctx, sym):
    ctx.rule('R7', "the import replacement built by create_import_function executed abstractly for plain, dotted, "
                   "from- (incl. submodule and *) and relative imports of modules that are neither pedal nor a "
                   "submission file: the real __import__ is called exactly once with the very name, globals, locals, "
                   "fromlist and level it was given, and its result is handed back")
    from .c04 import restricted_import_cells, MOCKED
    mm = ctx.repo.module(MOCKED)
    ri = mm.func('create_import_function.<locals>._restricted_import')
    n = 0
    for name, g, l, fromlist, level, outcome, real_calls, own_calls, result, student_module, other in \
            restricted_import_cells(ctx, sym):
        if name == 'pedal' or name.startswith('pedal.') or name == 'helper':
            continue
        n += 1
        want_fromlist, want_level = (fromlist, level) if fromlist is not None else ((), 0)
        ok = outcome == ('returns', result) and len(real_calls) == 1 and not other
        if ok:
            a, k = real_calls[0][1], real_calls[0][2]
            got = dict(zip(('name', 'globals', 'locals', 'fromlist', 'level'), a))
            got.update(k)
            ok = got.get('name') == name and got.get('globals') is g and got.get('locals') is l and \
                tuple(got.get('fromlist') or ()) == tuple(want_fromlist or ()) and got.get('level', 0) == want_level
        ctx.check(ok, 'R7', 'import-delegated-unchanged[%s,fromlist=%r,level=%r]' % (name, fromlist, level), mm, ri,
                  "importing %s with fromlist %r and level %r: %s; the real __import__ was called %d time(s) with %r%s" % (
                      name, fromlist, level, '%s %r' % outcome, len(real_calls), [c[1] for c in real_calls],
                      ', another import function %d time(s)' % len(other) if other else ''),
                  "`from email import utils` raises ImportError in the sandbox when email.utils was not imported before")
    ctx.floor('R7', 'allowed import forms', n, 7)
    # ... and over histories: one closure asked for the same dotted module in different forms, in both orders.  The
    # real __import__ answers per (name, fromlist emptiness) - the package for `import a.b`, the submodule for
    # `from a.b import c` - so a replacement that remembers an answer under the name alone hands back the wrong one.
    from .. import symexec
    from ..fdeval import Obj as _Obj, Raised, Inconclusive
    maker = mm.func('create_import_function')
    histories = [
        [('os.path', (), 0), ('os.path', ('basename',), 0)],
        [('os.path', ('basename',), 0), ('os.path', (), 0)],
        [('email.utils', ('parseaddr',), 0), ('email.utils', (), 0), ('email.utils', ('formatdate',), 0)],
        [('json', (), 0), ('json', ('tool',), 0), ('json', (), 0)],
    ]
    h = 0
    for hist in histories:
        answers = {}

        def real_import(*a, **k):
            given = dict(zip(('name', 'globals', 'locals', 'fromlist', 'level'), a))
            given.update(k)
            name, fromlist = given['name'], given.get('fromlist') or ()
            key = (name, bool(fromlist))
            if key not in answers:
                answers[key] = _Obj('module:%s%s' % (name if fromlist else name.split('.')[0],
                                                      '' if fromlist or '.' not in name else ' (top package)'))
            return answers[key]
        real_import._fd_callable = True
        sandbox = _Obj('sandbox', threaded=False)
        symexec.method(sandbox, '_import', lambda *a, **k: _Obj('student-module'))
        report = _Obj('report', submission=_Obj('submission', files={'helper.py': 'K = 1'}))
        fd = symexec.new_fd(sym, mm, calls={'importlib.import_module': real_import, '__import__': real_import,
                                            'importlib.__import__': real_import, 'builtins.__import__': real_import},
                            extra={'ORIGINAL_BUILTINS': {'__import__': real_import}, 'sys.modules': {}})
        closure, raised = symexec.run(fd, maker, [report, sandbox], what='create_import_function')
        if raised is not None or not callable(closure):
            raise AnalysisError("create_import_function does not return the import replacement (%r)" % (raised or closure,))
        wrong = []
        for name, fromlist, level in hist:
            try:
                got = closure(name, {'__name__': '__main__'}, {}, fromlist, level)
            except Raised as e:
                wrong.append('%s/%r raises %s' % (name, fromlist, e.kind))
                continue
            except Inconclusive as e:
                raise AnalysisError("_restricted_import is outside the decidable fragment: %s" % e)
            want = real_import(name, None, None, fromlist, level)
            if got is not want:
                wrong.append('%s with fromlist %r gives %s, the real import gives %s' % (
                    name, fromlist, getattr(got, '_name', got), want._name))
        h += 1
        ctx.check(not wrong, 'R7', 'import-history[%s]' % '; '.join('%s/%r' % (n_, f) for n_, f, _ in hist), mm, ri,
                  "one sandbox importing %s: %s" % (', then '.join('%s (fromlist %r)' % (n_, f) for n_, f, _ in hist),
                                                   '; '.join(wrong)),
                  "import os.path\nfrom os.path import basename   # ImportError in the sandbox, fine in plain Python")
    ctx.floor('R7', 'import histories', h, 4)


def r8_namespace_kept(ctx, sym, mod):
    ctx.rule('R8', "Sandbox._stop_mocking executed abstractly on a sandbox whose student namespace holds ordinary "
                   "globals and globals named like overridden builtins (open, exit, input, compile): when the "
                   "execution ends every name the program defined is still bound to the very object it stored")
    from .. import symexec
    from .c05 import sandbox_self
    st = mod.func('Sandbox._stop_mocking')
    ctx.analysed_function(mod, st)
    rec = symexec.Recorder()
    student = {'total': Obj('student value total'), 'open': Obj('student value open'),
               'exit': Obj('student function exit'), 'input': Obj('student value input'),
               'compile': Obj('student function compile'), '__name__': '__main__'}
    data = dict(student)
    data['__builtins__'] = {'open': 'mock-open'}
    buffer = Obj('buffer', text='out')
    symexec.method(buffer, 'getvalue', lambda: 'out')
    symexec.method(buffer, 'flush', lambda: None)
    me = sandbox_self(ctx, sym, mod, stdout=[buffer], data=data, modules={},
                      _module_overrides={'__builtins__': {'open': 'mock-open', 'exit': False, 'input': 'tracker',
                                                          'compile': False, 'eval': False}, 'os': True})
    for name in ('_stop_patches', 'append_output', 'mock_function', '_reset_builtins', '_mock_builtins'):
        symexec.method(me, name, rec.stub(name))
    _, raised = symexec.run(symexec.new_fd(sym, mod), st, [Obj('context', inputs=[])], bound_self=me,
                            what='Sandbox._stop_mocking')
    now = me.attrs['data']
    lost = sorted(k for k, v in student.items() if not (k in now and now[k] is v))
    ctx.check(raised is None and not lost, 'R8', '_stop_mocking:student-globals-kept', mod, st,
              "after the execution ends the student's globals %r are gone or rebound%s" % (
                  lost, '' if raised is None else ' (raises %s)' % raised.kind),
              "`open = 9 <= hour < 17` at top level: the variable exists after a plain run and is missing from the "
              "sandbox's data")


# interpreter-wide state a student program can observe, and the calls that change it (sys.settrace is owned by the
# tracers and decided under C05)
_AMBIENT = {
    'random': None,     # every call draws from or reseeds the generator a seeded student program relies on
    'sys': {'setrecursionlimit', 'setswitchinterval', 'set_int_max_str_digits', 'setprofile', 'set_asyncgen_hooks'},
    'os': {'chdir', 'umask', 'putenv', 'unsetenv', 'fchdir'},
    'locale': {'setlocale'},
    'decimal': {'setcontext', 'getcontext'},
    'time': {'tzset'},
    'gc': {'disable', 'enable', 'freeze', 'set_threshold'},
    'warnings': {'simplefilter', 'filterwarnings', 'resetwarnings'},
    'threading': {'setprofile', 'settrace', 'stack_size'},
}


def r9_ambient_state(ctx, sym):
    ctx.rule('R9', "no function of pedal.sandbox changes interpreter-wide state that student code can observe outside "
                   "the patches it undoes (who-may-call sweep over resolved stdlib callees: random.*, "
                   "sys.setrecursionlimit & co, os.chdir/umask/putenv, locale.setlocale, decimal contexts, gc, "
                   "warnings filters; assignments into os.environ)")
    from ..astutil import call_name
    from ..loader import enclosing_function
    n = 0
    for m in ctx.repo.modules.values():
        if not (m.name == 'pedal.sandbox' or m.name.startswith('pedal.sandbox.')):
            continue
        n += 1
        imported = {}
        for node in ast.walk(m.tree):
            if isinstance(node, ast.Import):
                for a in node.names:
                    imported[a.asname or a.name.split('.')[0]] = a.name.split('.')[0]
            elif isinstance(node, ast.ImportFrom) and node.module and node.level == 0:
                for a in node.names:
                    imported[a.asname or a.name] = node.module.split('.')[0] + '.' + a.name
        for c in ast.walk(m.tree):
            if isinstance(c, ast.Call):
                d = call_name(c) or ''
                head, _, rest = d.partition('.')
                target = imported.get(head)
                if target is None:
                    continue
                full = target + ('.' + rest if rest else '')
                modname, _, fn = full.partition('.')
                fn = fn.split('.')[0]
                deny = _AMBIENT.get(modname, ())
                if modname in _AMBIENT and fn and (deny is None or fn in deny):
                    q = getattr(enclosing_function(c), '_qualname', '<module>')
                    ctx.fail('R9', 'ambient-state:%s@%s' % (full, q), m, c,
                             "%s changes interpreter-wide state that the student's program observes" % full,
                             "a program that seeds random at module level, then call() of a function that draws "
                             "numbers: the values differ from a plain run", function=q)
            targets = c.targets if isinstance(c, ast.Assign) else [c.target] if isinstance(c, ast.AugAssign) else []
            for t in targets:
                if isinstance(t, ast.Subscript) and ast.unparse(t.value) in ('os.environ',) and imported.get('os') == 'os':
                    q = getattr(enclosing_function(c), '_qualname', '<module>')
                    ctx.fail('R9', 'ambient-state:os.environ@%s' % q, m, c,
                             "an environment variable is set for the whole process",
                             "os.environ.get(...) in student code sees a value a plain run does not", function=q)
    ctx.ok('R9', 'sweep', sample={'modules': n})
    ctx.floor('R9', 'sandbox modules swept', n, 5)


_STORES = {'append', 'add', 'setdefault', 'insert', 'id', 'type', 'isinstance'}


def _table_methods(sym, ci):
    """Methods of the class that one of its class-level tables names (as a bare name or as a string)."""
    out, seen = [], set()
    for k in sym.mro(ci):
        node = getattr(k, 'node', None)
        if node is None:
            continue
        for st in node.body:
            if isinstance(st, ast.Assign) and isinstance(st.value, (ast.Dict, ast.Tuple, ast.List, ast.Set)):
                for x in ast.walk(st.value):
                    name = x.id if isinstance(x, ast.Name) else (
                        x.value if isinstance(x, ast.Constant) and isinstance(x.value, str) else None)
                    if name and name not in seen:
                        got = sym.method(ci, name)
                        if got is not None and got[0].module.name.startswith('pedal.'):
                            seen.add(name)
                            out.append((name, got[1]))
    return out


def _is_import_or_builtin(mod, name):
    import builtins
    if hasattr(builtins, name):
        return True
    for node in ast.walk(mod.tree):
        if isinstance(node, (ast.Import, ast.ImportFrom)):
            if any((a.asname or a.name.split('.')[0]) == name for a in node.names):
                return True
    return False


def r10_trace_functions_only_store(ctx, sym):
    ctx.rule('R10', "a trace function runs inside the student's frames: whatever it raises is raised in the student's "
                    "program, and whatever student method it runs the plain program would not have run. In every trace "
                    "callback of the tracer classes (the function handed to sys.settrace, bdb's user_* hooks, and the "
                    "methods of the class they call), values taken from the traced frame (f_locals / f_globals entries, "
                    "the return value or exception argument) are only stored: never passed to another function, "
                    "copied, converted, compared, tested, indexed, iterated or asked for an attribute")
    from ..astutil import call_name
    from ..tables import literal
    tmod = ctx.repo.module('pedal.sandbox.tracer')
    table = literal(tmod.top_assign('TRACER_STYLES'), resolve_consts=False)
    n_callbacks = 0
    for style, cls_name in sorted(table.items()):
        ci = sym.find_class('pedal.sandbox.tracer', str(cls_name))
        roots = {}
        for k in sym.mro(ci):
            for mname, fn in getattr(k, 'methods', {}).items():
                for c in ast.walk(fn):
                    if isinstance(c, ast.Call) and call_name(c) == 'sys.settrace' and c.args and \
                            isinstance(c.args[0], ast.Attribute) and isinstance(c.args[0].value, ast.Name) and \
                            c.args[0].value.id == 'self':
                        got = sym.method(ci, c.args[0].attr)
                        if got is not None:
                            roots[c.args[0].attr] = (got[1], 'arg3')
        for hook, kind in (('user_call', 'none'), ('user_line', 'none'), ('user_return', 'arg2'),
                           ('user_exception', 'arg2')):
            got = sym.method(ci, hook)
            if got is not None and got[0].module.name.startswith('pedal.'):
                roots[hook] = (got[1], kind)
        work = [(name, fn, kind, frozenset()) for name, (fn, kind) in sorted(roots.items())]
        seen = set()
        while work:
            name, fn, kind, tainted_params = work.pop()
            if (id(fn), tainted_params) in seen:
                continue
            seen.add((id(fn), tainted_params))
            n_callbacks += 1
            ctx.analysed_function(fn._module if hasattr(fn, '_module') else tmod, fn)
            params = [a.arg for a in fn.args.args]
            tainted = set(tainted_params)
            if kind == 'arg3' and len(params) >= 4:
                tainted.add(params[3])
            if kind == 'arg2' and len(params) >= 3:
                tainted.add(params[2])

            def is_source(e):
                # an entry of a frame's local/global variables
                if isinstance(e, ast.Subscript) and isinstance(e.value, ast.Attribute) and \
                        e.value.attr in ('f_locals', 'f_globals'):
                    return True
                if isinstance(e, ast.Call) and isinstance(e.func, ast.Attribute) and \
                        e.func.attr in ('get', 'values', 'items', 'pop') and isinstance(e.func.value, ast.Attribute) \
                        and e.func.value.attr in ('f_locals', 'f_globals'):
                    return True
                return False

            def holds(e):
                return any(is_source(x) or (isinstance(x, ast.Name) and x.id in tainted) for x in ast.walk(e))
            # names that receive a frame value (or a container of them), to a fixed point
            changed = True
            while changed:
                changed = False
                for st in ast.walk(fn):
                    if isinstance(st, ast.Assign) and holds(st.value):
                        for t in st.targets:
                            for x in ast.walk(t):
                                if isinstance(x, ast.Name) and x.id not in tainted:
                                    tainted.add(x.id)
                                    changed = True
                    if isinstance(st, (ast.For, ast.comprehension)) and holds(st.iter):
                        for x in ast.walk(st.target):
                            if isinstance(x, ast.Name) and x.id not in tainted:
                                tainted.add(x.id)
                                changed = True

            def direct(e):
                return is_source(e) or (isinstance(e, ast.Name) and e.id in tainted)
            bad = []
            for node in ast.walk(fn):
                if isinstance(node, ast.Call):
                    cname = call_name(node) or ''
                    last = node.func.attr if isinstance(node.func, ast.Attribute) else cname.split('.')[-1]
                    args_ = list(node.args) + [k.value for k in node.keywords]
                    if is_source(node):
                        continue
                    if isinstance(node.func, ast.Attribute) and direct(node.func.value):
                        bad.append((node, "calls .%s() on a value of the student's frame" % node.func.attr))
                        continue
                    if any(holds(a) for a in args_):
                        if cname.startswith('self.') and cname.count('.') == 1 and sym.method(ci, last) is not None \
                                and sym.method(ci, last)[0].module.name.startswith('pedal.'):
                            callee = sym.method(ci, last)[1]
                            cparams = [a.arg for a in callee.args.args][1:]
                            tp = frozenset(p for p, a in zip(cparams, node.args) if holds(a)) | frozenset(
                                k.arg for k in node.keywords if k.arg and holds(k.value))
                            work.append((last, callee, 'none', tp))
                        elif last not in _STORES:
                            # dispatch through a class-level table (`handler(self, frame, args)` for a handler looked
                            # up in `_EVENT_HANDLERS`, `getattr(self, recorder)(frame, args)`): every method the
                            # class's tables name is a possible callee and is analysed with the same taint
                            dispatched = _table_methods(sym, ci) if (
                                isinstance(node.func, ast.Name) and node.func.id not in ('deepcopy', 'copy') and
                                not _is_import_or_builtin(tmod, node.func.id)) or (
                                isinstance(node.func, ast.Call) and call_name(node.func) == 'getattr') else []
                            if dispatched:
                                pos = [a for a in node.args if not (isinstance(a, ast.Name) and a.id == 'self')]
                                for mname, callee in dispatched:
                                    cparams = [a.arg for a in callee.args.args][1:]
                                    tp = frozenset(p_ for p_, a in zip(cparams, pos) if holds(a))
                                    work.append((mname, callee, 'none', tp))
                            else:
                                bad.append((node, "passes a value of the student's frame to %s()" % (cname or last)))
                    elif cname.startswith('self.') and cname.count('.') == 1 and sym.method(ci, last) is not None and \
                            sym.method(ci, last)[0].module.name.startswith('pedal.') and \
                            any(isinstance(a, ast.Name) and a.id == 'frame' for a in args_):
                        work.append((last, sym.method(ci, last)[1], 'none', frozenset()))
                elif isinstance(node, ast.Compare):
                    ops = [node.left] + list(node.comparators)
                    if any(direct(o) for o in ops):
                        bad.append((node, "compares a value of the student's frame"))
                elif isinstance(node, (ast.BinOp,)) and (direct(node.left) or direct(node.right)):
                    bad.append((node, "computes with a value of the student's frame"))
                elif isinstance(node, (ast.If, ast.While, ast.IfExp)) and direct(node.test):
                    bad.append((node, "tests the truth of a value of the student's frame"))
                elif isinstance(node, ast.UnaryOp) and direct(node.operand):
                    bad.append((node, "tests the truth of a value of the student's frame"))
                elif isinstance(node, ast.FormattedValue) and direct(node.value):
                    bad.append((node, "formats a value of the student's frame"))
                elif isinstance(node, ast.Subscript) and direct(node.value) and not is_source(node):
                    bad.append((node, "indexes a value of the student's frame"))
                elif isinstance(node, ast.Attribute) and direct(node.value):
                    bad.append((node, "reads attribute .%s of a value of the student's frame" % node.attr))
                elif isinstance(node, (ast.For, ast.comprehension)) and direct(node.iter):
                    bad.append((node, "iterates over a value of the student's frame"))
            q = getattr(fn, '_qualname', name)
            for node, why in bad:
                ctx.fail('R10', 'trace-callback:%s:%s' % (q, norm(node)[:60]), tmod, node,
                         "trace callback %s %s: `%s`" % (q, why, norm(node)[:100]),
                         "tracer_style=%r and a student function that receives d.values(), a generator or an open file "
                         "(or an object whose __deepcopy__/__eq__/__repr__ raises or prints): the program that ends "
                         "normally under plain CPython ends with a TypeError raised at the call" % style, function=q)
            if not bad:
                ctx.ok('R10', 'trace-callback:%s' % q, sample={'frame values': sorted(tainted)}, nontrivial=bool(tainted))
    ctx.floor('R10', 'trace callbacks analysed', n_callbacks, 2)


def run(ctx):
    sym = Symbols(ctx.repo)
    mod = ctx.repo.module(SANDBOX)
    # R1 continued: the text the sandbox reads from the submission is the text that was submitted (shared with C12.R8)
    from .c12 import r8_text_kept
    r8_text_kept(ctx, sym, rule='R1')
    r9_ambient_state(ctx, sym)      # (a sweep: first, so that it reports even where an execution rule cannot interpret the call)
    r1_source_unmodified(ctx, sym, mod)
    r2_arguments(ctx, sym, mod)
    r3_result(ctx, sym, mod)
    r3b_result_through_entry_points(ctx, sym, mod)
    r4_exception_line(ctx, sym)
    r5_output_verbatim(ctx, sym, mod)
    r6_inputs_verbatim(ctx, sym, mod)
    r7_imports_delegated(ctx, sym)
    r8_namespace_kept(ctx, sym, mod)
    r10_trace_functions_only_store(ctx, sym)
    ctx.rule('R11', "a submission file imported by the student's program in threaded mode is the module: "
                    "Sandbox._import hands back timeout(...)'s value, so timeout(), executed abstractly on a thread that "
                    "finishes in time, returns what the function returned")
    from .c14 import timeout_returns_result
    timeout_returns_result(ctx, sym, 'R11')
    ctx.assume("observational equivalence itself (printed text, global values, exception kind and line for every "
               "program and input) is NOT decided: only the three structural clauses above, each a necessary "
               "condition of it; the input tracker's behaviour is decided under C15.R4, the patches' restoration "
               "under C05")
