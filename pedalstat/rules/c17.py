"""C17 - sections split a submission losslessly and report whole-file line numbers."""
import ast
import re

from ..astutil import dotted, calls, call_name, body_walk, walk_local, is_self_attr, kw
from ..fdeval import FD, Obj, Raised, Inconclusive, UNKNOWN
from ..loader import AnalysisError, norm, enclosing_function
from ..symbols import Symbols, ClassInfo

SECTIONS = 'pedal.source.sections'
TIFA_CORE = 'pedal.tifa.tifa_core'
TIFA_VISITOR = 'pedal.tifa.tifa_visitor'
UEXC = 'pedal.utilities.exceptions'
SANDBOX = 'pedal.sandbox.sandbox'
SUBMISSION = 'pedal.core.submission'


def r1_lossless(ctx, sym, mod):
    ctx.rule('R1', "DEFAULT_SECTION_PATTERN (regex AST): exactly one capturing group and everything outside it is "
                   "zero-width, so re.split returns code at even and markers at odd indices and ''.join(parts) is the "
                   "original text; separate_into_sections splits the unmodified main code with re.MULTILINE and stores "
                   "the result unchanged")
    import re._parser as sre
    try:
        text = sym.const(mod, mod.top_assign('DEFAULT_SECTION_PATTERN'))
    except KeyError:
        raise AnalysisError("DEFAULT_SECTION_PATTERN is not a literal")
    parsed = sre.parse(text)
    groups = re.compile(text).groups
    zero_width_outside = all(str(op) in ('AT',) for op, av in parsed if str(op) != 'SUBPATTERN')
    n_sub = sum(1 for op, av in parsed if str(op) == 'SUBPATTERN')
    ctx.check(groups == 1 and n_sub == 1 and zero_width_outside, 'R1', 'DEFAULT_SECTION_PATTERN:whole-match-captured',
              mod, mod.top_assign('DEFAULT_SECTION_PATTERN'),
              "pattern %r has %d capturing group(s) and %s text outside the group; re.split then drops part of the "
              "marker line or shifts the code/marker alternation" % (
                  text, groups, 'no' if zero_width_outside else 'consuming'),
              "a file with one '##### Part 1' line: the concatenation of the stored parts is no longer the file",
              construct=text)
    anchored = [str(av) for op, av in parsed if str(op) == 'AT']
    ctx.check(len(anchored) == 2 and 'BEGINNING' in anchored[0] and 'END' in anchored[1], 'R1',
              'DEFAULT_SECTION_PATTERN:line-anchored', mod, mod.top_assign('DEFAULT_SECTION_PATTERN'),
              "the marker pattern is not anchored to a whole line", "'x = \"##### Part 1\"' splits the file mid-line",
              construct=text)
    fn = mod.func('separate_into_sections')
    ctx.analysed_function(mod, fn)
    if groups == 1:
        pat = re.compile(text, re.MULTILINE)
        for sample in SAMPLES:
            sess = Session(ctx, sym, mod, sample, True)
            raised = sess.separate()
            got = sess.source.get('sections')
            ok = raised is None and isinstance(got, list) and got == pat.split(sample) and ''.join(got) == sample
            ctx.check(ok, 'R1', 'separate_into_sections:split[%r]' % sample[:24], mod, fn,
                      "separate_into_sections (executed abstractly) stores %r for the file %r; a lossless split "
                      "stores %r%s" % (got, sample, pat.split(sample),
                                       '' if raised is None else ' (raises %s)' % raised.kind),
                      "the file %r" % sample, construct='separate_into_sections')
    d = fn.args.defaults
    ctx.check(any(norm(x) == 'DEFAULT_SECTION_PATTERN' for x in d), 'R1', 'separate_into_sections:default-pattern', mod,
              fn, "default pattern is not DEFAULT_SECTION_PATTERN", "default markers not recognised")
    return text


SAMPLES = [
    "a = 1\n##### Part 1\nb = 2\nc = 3\n##### Part 2\nd = 4\n",
    "only code\nno markers\n",
    "##### Part 1\nfirst line is a marker\n",
    "x\n##### Part 1\n##### Part 2\nadjacent\n",
    "x\ny\n##### Part 1",
    "",
    "page one\x0c\nstill page one\n##### Part 1\nb = 1\n##### Part 2\nc\n",   # form feed: not a line break for CPython
    "s = '\u2028'\n##### Part 1\nb = 1\n",
]


class Session:
    """A model report/submission on which separate_into_sections, next_section and stop_sections are executed
    abstractly, in sequence, on one shared state - as a grading script does."""

    def __init__(self, ctx, sym, mod, text, independent):
        self.ctx, self.sym, self.mod, self.text, self.independent = ctx, sym, mod, text, independent
        self.tool = sym.const(mod, ast.parse('TOOL_NAME', mode='eval').body)
        self.log = log = []
        sub = self.submission = Obj('submission', main_code=text, main_file='answer.py')

        def replace_main(code, filename=None, *a, **k):
            log.append(('replace_main', code, filename))
            sub.attrs['main_code'] = code
            if filename is not None:
                sub.attrs['main_file'] = filename
        sub.attrs['method:replace_main'] = replace_main
        # the offset in force for the main file (what every tool adds to the lines it reports)
        sub.attrs['offset_in_force'] = 0

        def set_line_offset(n, filename=None):
            log.append(('offset', n))
            sub.attrs['offset_in_force'] = n

        def clear_line_offsets(*a):
            log.append(('clear_offsets',))
            sub.attrs['offset_in_force'] = 0
        sub.attrs['method:set_line_offset'] = set_line_offset
        sub.attrs['method:clear_line_offsets'] = clear_line_offsets
        self.source = {'substitutions': [], 'sections': None, 'section': None, 'independent': None,
                       'section_group': None, 'success': True, 'section_pattern': None}
        source = self.source
        # the report's group stack is the real one (Report.start_group / stop_group are interpreted), with a group of
        # the instructor's already active, as inside a question or an assertion group
        rmod = ctx.repo.module('pedal.core.report')
        rep = self.report = Obj('report', submission=sub, groups=['instructor-group'])
        rep.attrs['__classdef__'] = rmod.cls('Report')
        rep.attrs['method:__getitem__'] = lambda k: source if k == self.tool else None
        rep.attrs['method:execute_hooks'] = lambda *a: None
        rep.attrs['method:add_hook'] = lambda *a, **k: log.append(('add_hook',) + tuple(a[:1]))

    def _fd(self):
        from ..fdeval import module_resolver
        fd = FD(max_steps=100000, resolver=module_resolver(self.sym, self.mod))
        fd.calls['FeedbackSourceSection'] = lambda n, **k: ('group', n)
        # (Substitution is pedal's own small class: constructed and used as it is, helper methods included)
        fd.calls['not_enough_sections'] = lambda *a, **kw: self.log.append(('not_enough_sections',) + a)

        def re_split(pattern, string, maxsplit=0, flags=0):
            if not isinstance(pattern, str) or not isinstance(string, str):
                raise Inconclusive('re.split on non-concrete operands')
            return re.split(pattern, string, maxsplit=maxsplit, flags=flags)   # stdlib on literals/sample data
        fd.calls['re.split'] = re_split
        return fd

    def _run(self, name, args, kwargs):
        fn = self.mod.func(name)
        try:
            self._fd().call_function(fn, list(args), kwargs)
        except Raised as e:
            return e
        except Inconclusive as e:
            raise AnalysisError("C17: %s outside the decidable fragment: %s" % (name, e))
        return None

    def separate(self):
        return self._run('separate_into_sections', [], {'independent': self.independent, 'report': self.report})

    def next_section(self):
        return self._run('next_section', [], {'report': self.report})

    def stop(self):
        return self._run('stop_sections', [], {'report': self.report})


def r3_next_section_table(ctx, sym, mod, pattern_text):
    ctx.rule('R3', "decision table of next_section (abstract interpretation) over 6 file shapes (no markers, marker on "
                   "first/last line, adjacent markers, empty) x independent/cumulative x successive calls: the "
                   "presented text is exactly the k-th chunk (or the file up to and including it), the line offset is "
                   "the number of lines before the chunk, and a section past the end constructs not_enough_sections "
                   "without raising")
    fn = mod.func('next_section')
    ctx.analysed_function(mod, fn)
    calc = mod.func('_calculate_section_number')
    pat = re.compile(pattern_text, re.MULTILINE)   # stdlib on the extracted literal
    tool = sym.const(mod, ast.parse('TOOL_NAME', mode='eval').body)
    for text in SAMPLES:
        parts = pat.split(text)
        n_sections = len(parts) // 2
        for independent in (True, False):
            sess = Session(ctx, sym, mod, text, independent)
            if sess.separate() is not None or sess.source.get('sections') != parts:
                continue    # reported by R1
            log = sess.log
            for k in range(1, n_sections + 3):
                del log[:]
                key = 'next_section[%r,%s,k=%d]' % (text[:24], 'independent' if independent else 'cumulative', k)
                e = sess.next_section()
                if e is not None:
                    ctx.fail('R3', key, mod, getattr(e, 'node', None) or fn,
                             "next_section raises %s (%s) for section %d of a file with %d section(s)" % (
                                 e.kind, e.detail, k, n_sections),
                             "calling next_section() %d time(s) on %r" % (k, text), function='next_section')
                    break
                mains = [x[1] for x in log if x[0] == 'replace_main']
                offs = [x[1] for x in log if x[0] == 'offset']
                missing = [x for x in log if x[0] == 'not_enough_sections']
                if k <= n_sections:
                    chunk = parts[2 * k]
                    before = ''.join(parts[:2 * k])
                    want_main = chunk if independent else ''.join(parts[:2 * k + 1])
                    want_off = [before.count("\n")] if independent else []
                    ok = bool(mains) and mains[-1] == want_main and offs == want_off and not missing
                    why = "presents %r with line offset %r; the property requires %r with offset %r" % (
                        mains[-1] if mains else None, offs, want_main, want_off)
                else:
                    ok = len(missing) == 1 and missing[0][1:] == (k, n_sections)
                    why = "asking for section %d of %d gives %r instead of not_enough_sections(%d, %d)" % (
                        k, n_sections, missing or mains[-1:], k, n_sections)
                    # the whole file is what is presented now: no offset may stay in force
                    ctx.check(sess.submission.attrs['main_code'] != text or
                              sess.submission.attrs['offset_in_force'] == 0, 'R3', key + ':no-stale-offset', mod, fn,
                              "past the last section the whole file is presented again but line offset %r of the last "
                              "section stays in force" % sess.submission.attrs['offset_in_force'],
                              "a syntax/runtime/TIFA problem on file line 14 is then reported on line 14 + offset")
                ctx.check(ok, 'R3', key, mod, fn, why, "file %r, %s mode, next_section() call number %d" % (
                    text, 'independent' if independent else 'cumulative', k), construct='next_section',
                          sample={'file': text[:30], 'k': k, 'offset': offs})
                # the restored text before advancing is always the original file
                ctx.check(bool(mains) and mains[0] == text, 'R3', key + ':restores-first', mod, fn,
                          "next_section does not restore the original file before advancing",
                          "section text accumulates wrongly", construct='next_section')
            else:
                # having asked for sections past the end, the session still ends cleanly
                e = sess.stop()
                ctx.check(e is not None or sess.submission.attrs['offset_in_force'] == 0, 'R3',
                          'stop_sections:no-stale-offset[%r,%s]' % (text[:24], 'independent' if independent else
                                                                    'cumulative'), mod, mod.func('stop_sections'),
                          "after stop_sections() the whole file is the main code again but line offset %r stays in "
                          "force" % sess.submission.attrs['offset_in_force'],
                          "separate_into_sections(); next_section(); next_section(); stop_sections(); run(): a "
                          "ZeroDivisionError on file line 6 is reported on line 9")
                ctx.check(e is None and sess.submission.attrs['main_code'] == text and
                          sess.report.attrs['groups'] == ['instructor-group'], 'R3',
                          'stop-after-past-the-end[%r,%s]' % (text[:24], 'independent' if independent else 'cumulative'),
                          mod, mod.func('stop_sections'),
                          "after asking for sections past the end, stop_sections %s; main code %r, open groups %r" % (
                              'raises %s (%s)' % (e.kind, e.detail) if e is not None else 'returns',
                              sess.submission.attrs['main_code'][:30], sess.report.attrs['groups']),
                          "a submission with fewer sections than the grader asks for, inside an instructor's own "
                          "feedback group: next_section()/stop_sections()/resolve() raise ValueError")


def r2_offset_discipline(ctx, sym):
    ctx.rule('R2', "provenance: every raw line number that becomes a reported location in the four tools passes "
                   "through an addition with a value derived from submission.line_offsets: TIFA's central locate() "
                   "(used by every _issue site), the traceback frames (_fix_frame_line), the traceback's line_number "
                   "used by Sandbox._capture_exception, and syntax_error (C12.R6)")
    # TIFA
    core = ctx.repo.module(TIFA_CORE)
    loc = core.func('TifaCore.locate')
    ctx.analysed_function(core, loc)
    # (locate() itself is executed by the offset rule below: a node of line 5 must be located on 5 + offset)
    vis = ctx.repo.module(TIFA_VISITOR)
    from .c18 import line_offset_rule, tifa_cache_offset_rule, borrowed_position_rule
    line_offset_rule(ctx, sym, 'R2')
    tifa_cache_offset_rule(ctx, sym, 'R2')
    borrowed_position_rule(ctx, sym, 'R2')
    # every feedback issued by TIFA gets its location from locate()
    n_issue = 0
    for m in (core, vis):
        for c in ast.walk(m.tree):
            if isinstance(c, ast.Call) and isinstance(c.func, ast.Attribute) and c.func.attr == '_issue' and c.args:
                inner = c.args[0]
                if isinstance(inner, ast.Call):
                    n_issue += 1
                    first = inner.args[0] if inner.args else kw(inner, 'location')
                    okx = first is not None and ((isinstance(first, ast.Call) and isinstance(first.func, ast.Attribute)
                                                  and first.func.attr == 'locate') or
                                                 'position' in norm(first) or 'location' in norm(first).lower())
                    fnq = getattr(enclosing_function(c), '_qualname', '?')
                    ctx.check(okx, 'R2', 'tifa:_issue@%s:%s' % (fnq, call_name(inner)), m, c,
                              "issue %s is not located through self.locate()" % call_name(inner),
                              "this TIFA issue is reported without the section offset")
    ctx.floor('R2', 'TIFA _issue sites', n_issue, 25)
    # traceback: _fix_frame_line, build_traceback and __init__ executed abstractly on model frames
    from .. import symexec
    ux = ctx.repo.module(UEXC)
    fix = ux.func('ExpandedTraceback._fix_frame_line')
    ctx.analysed_function(ux, fix)
    for fname, offsets, want in (('answer.py', {'answer.py': 10}, 13), ('answer.py', {}, 3),
                                 ('helper.py', {'answer.py': 10}, 3), ('answer.py', {'answer.py': 0}, 3)):
        frame = Obj('frame', filename=fname, lineno=3, _line='old', _lines='old', line='old', __open__=True)
        me = symexec.self_obj(ux, 'ExpandedTraceback', line_offsets=offsets,
                              original_code_lines=['l1', 'l2', 'l3', 'l4'], student_files={fname: ['l1', 'l2', 'l3']})
        fd = symexec.new_fd(sym, ux, calls={'len': len})
        _, raised = symexec.run(fd, fix, [frame], bound_self=me, what='ExpandedTraceback._fix_frame_line')
        ctx.check(raised is None and frame.attrs.get('lineno') == want, 'R2',
                  'traceback:_fix_frame_line[%s,%r]' % (fname, offsets), ux, fix,
                  "a frame on line 3 of %s with section offsets %r ends on line %r%s, expected %d" % (
                      fname, offsets, frame.attrs.get('lineno'), '' if raised is None else ' (raises %s)' % raised.kind,
                      want), "traceback lines inside a section are section-relative")
    fix_frame_line_bounds_rule(ctx, sym, 'R2')
    bt = ux.func('ExpandedTraceback.build_traceback')
    ctx.analysed_function(ux, bt)
    rec = symexec.Recorder()
    frames = [Obj('frame%d' % i, filename='answer.py', lineno=i + 1, __open__=True) for i in range(3)]
    tb_e = Obj('TracebackException', stack=list(frames))
    me = symexec.self_obj(ux, 'ExpandedTraceback', exception=Obj('exception', exc_kind='ValueError'),
                          exc_info=('T', 'E', None), line_offsets={'answer.py': 10}, full_traceback=False)
    symexec.method(me, '_fix_frame_line', rec.stub('_fix_frame_line'))
    symexec.method(me, '_is_relevant_tb_level', lambda tb: False)
    symexec.method(me, '_count_relevant_tb_levels', lambda tb: 3)
    fd = symexec.new_fd(sym, ux, calls={'traceback.TracebackException': lambda *a, **k: tb_e,
                                        'isinstance': lambda o, t: False, 'list': list})
    got, raised = symexec.run(fd, bt, [], bound_self=me, what='ExpandedTraceback.build_traceback')
    fixed = [e[1][0] for e in rec.named('_fix_frame_line')]
    ctx.check(raised is None and len(fixed) == 3 and all(a is b for a, b in zip(fixed, frames)) and
              isinstance(got, list) and len(got) == 3, 'R2', 'traceback:all-frames-fixed', ux, bt,
              "not every frame of the traceback is passed through _fix_frame_line exactly once (%d of 3)" % len(fixed),
              "some traceback lines are section-relative")
    traceback_line_rule(ctx, sym, 'R2')
    # sandbox: _capture_exception executed abstractly with marker objects
    sandbox_capture_rule(ctx, sym, 'R2')


def fix_frame_line_bounds_rule(ctx, sym, rule):
    """ExpandedTraceback._fix_frame_line executed abstractly for frames whose line lies beyond the lines pedal split for
    that file: looking the text up must not raise."""
    from .. import symexec
    ux = ctx.repo.module(UEXC)
    fix = ux.func('ExpandedTraceback._fix_frame_line')
    ctx.analysed_function(ux, fix)
    # the line CPython reports can lie beyond the list of lines pedal split for that file (lone CR / form feed are
    # line breaks for CPython, not for str.split): looking the text up must not raise, whichever list is shorter
    # (scenarios keep to what the callers construct: the main file's list is one object under both names)
    for fname, offsets, main_lines, file_lines, lineno in (
            ('answer.py', {}, ['m1', 'm2'], ['m1', 'm2'], 4),
            ('answer.py', {'answer.py': 3}, ['m1', 'm2'], ['m1', 'm2'], 4),
            ('helper.py', {}, ['m1'], ['h1', 'h2', 'h3'], 3)):
        frame = Obj('frame', filename=fname, lineno=lineno, _line='old', _lines='old', line='old', __open__=True)
        me = symexec.self_obj(ux, 'ExpandedTraceback', line_offsets=offsets, original_code_lines=list(main_lines),
                              student_files={fname: list(file_lines), 'answer.py': list(main_lines)}
                              if fname != 'answer.py' else {'answer.py': list(main_lines)})
        fd = symexec.new_fd(sym, ux, calls={'len': len})
        _, raised = symexec.run(fd, fix, [frame], bound_self=me, what='ExpandedTraceback._fix_frame_line')
        ctx.check(raised is None, rule, 'traceback:_fix_frame_line:bounds[%s,line %d of %d/%d]' % (
            fname, lineno, len(file_lines), len(main_lines)), ux, fix,
                  "a frame on line %d of %s (pedal split that file into %d line(s), the main file into %d) makes "
                  "_fix_frame_line raise %s: the bounds check and the lookup use different lists" % (
                      lineno, fname, len(file_lines), len(main_lines), raised.kind if raised is not None else ''),
                  "a helper file with lone-CR line endings and an error CPython reports past the LF-split line count: "
                  "IndexError escapes while the failure is being recorded")


def sandbox_capture_rule(ctx, sym, rule):
    """Sandbox._capture_exception, executed abstractly for every kind of filename (student main file, instructor file,
    a call()/evaluate() snippet name): the submission's line offsets (a marker object) must reach ExpandedTraceback,
    and the runtime feedback's location must be that traceback's line_number."""
    from .. import symexec
    from ..fdeval import Obj
    sb = ctx.repo.module(SANDBOX)
    cap = sb.func('Sandbox._capture_exception')
    ctx.analysed_function(sb, cap)
    for fname_kind, filename in (('main-file', 'answer.py'), ('instructor-file', 'on_run.py'),
                                 ('snippet', '_instructor.call_1.py')):
        rec = symexec.Recorder()
        offsets = symexec.marker('line_offsets')
        line_no = symexec.marker('traceback.line_number')
        submission = symexec.model_submission(ctx, 'x = 1\n', instructor_file='on_run.py', line_offsets=offsets)
        report = Obj('report', submission=submission)
        me = symexec.self_obj(sb, 'Sandbox', report=report, full_traceback=False, exception=None, feedback=None)
        symexec.method(me, 'get_context', rec.stub('get_context', ret=Obj('context')))
        exc = Obj('exception', feedback=None)
        tb_obj = Obj('traceback', line_number=line_no)
        ff = rec.stub('runtime_error', ret=Obj('feedback'))
        fd = symexec.new_fd(sym, sb, calls={
            'improve_builtin_exceptions': lambda e: e,
            'ExpandedTraceback': rec.stub('ExpandedTraceback', ret=tb_obj),
            'type': lambda o: 'type-of-exception',
            'runtime_error': ff,
        }, extra={'EXCEPTION_FF_MAP': {}, 'runtime_error': ff})
        _, raised = symexec.run(fd, cap, [exc, ('T', exc, 'tb'), 'x = 1\n', filename], bound_self=me,
                                what='Sandbox._capture_exception')
        ctx.check(raised is None, rule, 'sandbox:capture-completes[%s]' % fname_kind, sb, cap,
                  "_capture_exception raises %s for a %s" % (getattr(raised, 'kind', ''), fname_kind),
                  "a run-time error in a %s" % fname_kind)
        if raised is not None:
            continue
        tbs = rec.named('ExpandedTraceback')
        passed = len(tbs) == 1 and (any(a is offsets for a in tbs[0][1]) or
                                    any(v is offsets for v in tbs[0][2].values()))
        ctx.check(passed, rule, 'sandbox:passes-offsets' if fname_kind == 'main-file' else
                  'sandbox:offsets-unconditional', sb, cap,
                  "for an execution compiled as a %s the submission's line offsets do not reach the traceback "
                  "(%d traceback(s) built)" % (fname_kind, len(tbs)),
                  "runtime errors inside a section are section-relative" if fname_kind == 'main-file' else
                  "call('f') of a student function that raises while section 2 is active: the location is "
                  "section-relative")
        ffs = rec.named('runtime_error')
        ok = len(ffs) == 1 and ffs[0][2].get('location') is line_no and ffs[0][2].get('traceback') is tb_obj
        ctx.check(ok, rule, 'sandbox:location[%s]' % fname_kind, sb, cap,
                  "the runtime feedback is not built exactly once with location=traceback.line_number "
                  "(%d construction(s))" % len(ffs), "runtime error located on the wrong line")


def traceback_line_rule(ctx, sym, rule):
    """ExpandedTraceback.__init__ executed abstractly on a deep model traceback: line_number is the raising line of the
    innermost traceback entry (not the frame's current line, not an outer frame) plus the offset of that file."""
    from .. import symexec
    ux = ctx.repo.module(UEXC)
    init = ux.func('ExpandedTraceback.__init__')
    ctx.analysed_function(ux, init)
    for fname, offsets, want, depth in (('answer.py', {'answer.py': 10}, 14, 10), ('answer.py', {}, 4, 10),
                                        ('helper.py', {'answer.py': 10}, 4, 10), ('answer.py', {}, 4, 0),
                                        ('answer.py', {'answer.py': 10}, 14, 70), ('answer.py', {}, 4, 1500)):
        # the traceback entries are (filename, lineno, ...) summaries of where each frame *raised*
        # (deep ones: `depth` calling frames above the raising one, as in a recursive student function)
        entries = [Obj('FrameSummary', filename='outer.py', lineno=1, __getitem__=None)] + \
                  [Obj('FrameSummary', filename=fname, lineno=20 + i % 7) for i in range(depth)] + \
                  [Obj('FrameSummary', filename=fname, lineno=4)]
        for e in entries:
            e.attrs['method:__getitem__'] = (lambda ee: (lambda i: [ee.attrs['filename'], ee.attrs['lineno']][i]))(e)
        tb = Obj('traceback-object', tb_lineno=4, tb_next=None,
                 tb_frame=Obj('frame', f_lineno=99, f_code=Obj('code', co_filename=fname)))
        me = symexec.self_obj(ux, 'ExpandedTraceback')
        def extract_tb(t, limit=None):
            # CPython: a positive limit keeps the first (outermost) entries, a negative one the last
            es = list(entries) if t is tb else []
            if limit is None:
                return es
            if not isinstance(limit, int):
                raise Raised('TypeError', 'limit must be an integer')
            return es[:limit] if limit >= 0 else es[limit:]
        fd = symexec.new_fd(sym, ux, calls={'traceback.extract_tb': extract_tb})
        _, raised = symexec.run(fd, init, [Obj('exception'), ('T', 'E', tb), False, [], offsets, [fname], ['a'], {}],
                                bound_self=me, what='ExpandedTraceback.__init__')
        ctx.check(raised is None and me.attrs.get('line_number') == want, rule,
                  'traceback:line_number[%s,%r%s]' % (fname, offsets, '' if depth == 10 else ',depth %d' % depth), ux, init,
                  "an error raised on line 4 of %s, %d calls deep (the frame has since moved on to line 99), with section "
                  "offsets %r gets line_number %r, expected %d" % (fname, depth, offsets, me.attrs.get('line_number'),
                                                                  want),
                  "an error on file line 4 inside section 1 is located on line 3 by the runtime feedback; a failing "
                  "statement inside try/finally is located on the cleanup line")
        ctx.check(me.attrs.get('line_offsets') is offsets, rule,
                  'traceback:stores-offsets[%s,%r%s]' % (fname, offsets, '' if depth == 10 else ',depth %d' % depth), ux,
                  init, "line offsets are not kept by the traceback", "frames cannot be shifted")


def is_self_call_named(c, name):
    return isinstance(c.func, ast.Attribute) and c.func.attr == name and norm(c.func.value) == 'self'


def r4_restoration(ctx, sym, mod):
    ctx.rule('R4', "stop_sections pops the substitution pushed by separate_into_sections and restores its code and "
                   "filename; every hook registration names an event that some execute_hooks site triggers "
                   "(tool + '.' + event, constants resolved)")
    st = mod.func('stop_sections')
    ctx.analysed_function(mod, st)
    sep = mod.func('separate_into_sections')
    try:
        ptext = sym.const(mod, mod.top_assign('DEFAULT_SECTION_PATTERN'))
        n_groups = re.compile(ptext).groups
    except (KeyError, re.error):
        n_groups = 0
    for text in SAMPLES[:5]:
        for independent in (True, False):
            tag = '[%r,%s]' % (text[:24], 'independent' if independent else 'cumulative')
            sess = Session(ctx, sym, mod, text, independent)
            e = sess.separate()
            if e is not None:
                ctx.fail('R4', 'separate_into_sections:completes' + tag, mod, sep,
                         "separate_into_sections raises %s (%s)" % (e.kind, e.detail), "the file %r" % text)
                continue
            subs = sess.source.get('substitutions') or []
            ok = len(subs) == 1 and isinstance(subs[0], Obj) and subs[0].attrs.get('code') == text and \
                subs[0].attrs.get('filename') == 'answer.py'
            ctx.check(ok, 'R4', 'separate_into_sections:backup' + tag, mod, sep,
                      "after separate_into_sections the substitution stack does not hold exactly the original main "
                      "code and file (it holds %r)" % [(getattr(x, 'attrs', {}).get('code'),
                                                        getattr(x, 'attrs', {}).get('filename')) for x in subs],
                      "the original text cannot be restored (a backup taken after the first chunk replaced the main "
                      "code is already the first chunk)")
            secs = sess.source.get('sections') or ['']
            ctx.check(sess.submission.attrs['main_code'] == secs[0], 'R4', 'separate_into_sections:presents-prologue' + tag,
                      mod, sep, "after separate_into_sections the main code is %r, not the prologue %r" % (
                          sess.submission.attrs['main_code'], secs[0]), "tools analyse the wrong text before section 1")
            # advance a few sections, then stop: the original file and name are back, nothing is left on the stack
            if n_groups == 1:
                for _ in range(min(2, len(secs) // 2)):
                    if sess.next_section() is not None:
                        break
            e = sess.stop()
            ok = e is None and sess.submission.attrs['main_code'] == text and \
                sess.submission.attrs['main_file'] == 'answer.py' and not sess.source.get('substitutions') and \
                sess.source.get('section_group') is None
            ctx.check(e is not None or sess.submission.attrs['offset_in_force'] == 0, 'R4',
                      'stop_sections:no-stale-offset' + tag, mod, st,
                      "after stop_sections() the whole file is the main code again but line offset %r of the last "
                      "section stays in force" % sess.submission.attrs['offset_in_force'],
                      "separate_into_sections(); next_section(); next_section(); stop_sections(); run(): a "
                      "ZeroDivisionError on file line 6 is reported on line 9")
            ctx.check(ok, 'R4', 'stop_sections:restores' + tag, mod, st,
                      "after stop_sections the main code is %r (file %r), substitutions %r%s" % (
                          sess.submission.attrs['main_code'], sess.submission.attrs['main_file'],
                          sess.source.get('substitutions'), '' if e is None else '; raises ' + e.kind),
                      "after stop_sections() the submission's main code is still a section, or a later "
                      "stop_any_sections() pops someone else's substitution")
    sa = mod.func('stop_any_sections')
    ctx.analysed_function(mod, sa)
    for active in (True, 'prologue', 'second section', False):
        sess = Session(ctx, sym, mod, SAMPLES[0], True)
        if active:
            if sess.separate() is not None:
                continue
            # (resolving may happen before the first next_section(): the prologue, section number 0, is active then)
            steps = {'prologue': 0, True: 1, 'second section': 2}[active]
            if any(sess.next_section() is not None for _ in range(steps)):
                continue
        e = sess._run('stop_any_sections', [], {'report': sess.report})
        ok = e is None and sess.submission.attrs['main_code'] == SAMPLES[0] and not sess.source.get('substitutions')
        label = {True: 'sections active', 'prologue': 'prologue active', 'second section': 'second section active',
                 False: 'no sections'}[active]
        ctx.check(ok, 'R4', 'stop_any_sections[%s]' % label, mod, sa,
                  "stop_any_sections with %s %s; main code %r" % (
                      label,
                      'returns' if e is None else 'raises %s' % e.kind, sess.submission.attrs['main_code'][:30]),
                  "resolving leaves the last section as main code")
    # hook agreement
    triggers = set()
    regs = []
    for m in ctx.repo.modules.values():
        for c in ast.walk(m.tree):
            if not (isinstance(c, ast.Call) and isinstance(c.func, ast.Attribute)):
                continue
            if c.func.attr == 'execute_hooks' and len(c.args) >= 2:
                try:
                    triggers.add(sym.const(m, c.args[0]) + '.' + sym.const(m, c.args[1]))
                except (KeyError, TypeError):
                    raise AnalysisError("C17 R4: execute_hooks with non-constant event at %s" % m.loc(c))
            elif c.func.attr in ('add_hook', 'add_class_hook') and len(c.args) >= 2:
                try:
                    regs.append((m, c, sym.const(m, c.args[0])))
                except KeyError:
                    raise AnalysisError("C17 R4: add_hook with non-constant event at %s" % m.loc(c))
    ctx.floor('R4', 'hook registrations', len(regs), 3)
    ctx.floor('R4', 'hook triggers', len(triggers), 3)
    for m, c, event in regs:
        ctx.check(event in triggers, 'R4', 'hook:%s@%s' % (event, m.name.split('.', 1)[-1]), m, c,
                  "hook is registered for event %r, which no execute_hooks site triggers (triggered: %s)" % (
                      event, sorted(triggers)),
                  "the registered function never runs: e.g. sections are not stopped when the report is resolved, so "
                  "the main code stays the last section", construct=norm(c))
    reg = [r for r in regs if r[0] is mod]
    ctx.check(any(norm(r[1].args[1]) == 'stop_any_sections' for r in reg), 'R4', 'sections:registers-stop-hook', mod,
              sep, "separate_into_sections does not register stop_any_sections on the resolver event",
              "after resolve() the main code is still a section")
    rc = ctx.repo.module('pedal.resolvers.core')
    mk = rc.func('make_resolver')
    ctx.analysed_function(rc, mk)
    # make_resolver executed: every call of the resolver it builds triggers the resolve event on its report before the
    # resolver function runs - also the call after one whose resolver function raised (a batch grader catches that and
    # goes on to the next submission)
    from .. import symexec
    from ..fdeval import Raised as _Raised
    for history in (('ok',), ('ok', 'ok'), ('raises', 'ok'), ('raises', 'raises', 'ok')):
        rec = symexec.Recorder()
        rep = Obj('report')
        symexec.method(rep, 'execute_hooks', rec.stub('execute_hooks'))
        state = {'i': 0}

        def resolver_function(*a, **k):
            rec.events.append(('resolver-function', a, k))
            outcome = history[state['i']]
            state['i'] += 1
            if outcome == 'raises':
                raise _Raised('AttributeError', "a faulty priority_key")
            return 'final feedback'
        fd = symexec.new_fd(sym, rc, extra={'MAIN_REPORT': rep})
        wrapper, raised = symexec.run(fd, mk, [resolver_function], what='make_resolver')
        ctx.require(raised is None and callable(wrapper), "make_resolver returns the wrapped resolver")
        fired_before = []
        for outcome in history:
            n0 = len(rec.events)
            try:
                wrapper(rep)
            except _Raised:
                pass
            evs = rec.events[n0:]
            names = [e[0] for e in evs]
            hook = [e for e in evs if e[0] == 'execute_hooks' and tuple(e[1][:2]) == ('pedal.resolvers', 'resolve')]
            fired_before.append(bool(hook) and 'resolver-function' in names and
                                names.index('execute_hooks') < names.index('resolver-function'))
        ctx.check(all(fired_before), 'R4', 'make_resolver:triggers[%s]' % ','.join(history), rc, mk,
                  "over the resolver calls %s the resolve event is triggered before the resolver function on calls %s "
                  "only" % (list(history), [i + 1 for i, f in enumerate(fired_before) if f]),
                  "a first submission whose resolve() raised (caught by the batch grader), then a sectioned "
                  "submission: its sections are not stopped when it is resolved, the main code stays the last section")


def run(ctx):
    sym = Symbols(ctx.repo)
    mod = ctx.repo.module(SECTIONS)
    pattern = r1_lossless(ctx, sym, mod)
    r2_offset_discipline(ctx, sym)
    if re.compile(pattern).groups == 1:
        r3_next_section_table(ctx, sym, mod, pattern)
    else:
        ctx.info("R3 skipped: the section pattern is not single-group (reported by R1)")
    r4_restoration(ctx, sym, mod)
    ctx.assume("custom section patterns are instructor inputs (not decided); CAIT-derived locations are outside the "
               "four tools the property names")
