"""Abstract execution of pedal's resolver core (FinalFeedback.merge/finalize, Score, combine_scores)
over a finite domain of feedback configurations, using the whitelist interpreter of fdeval.

Nothing of pedal is imported or run: the interpreter walks the ASTs found in /repo's working tree.
The *oracle* below is transcribed from the statements of C01, C02 and C03.
"""
import ast
import itertools
import re

from ..fdeval import FD, Obj, Opaque, UNKNOWN, Raised, Inconclusive, truth, NO_RETURN
from ..loader import AnalysisError
from ..symbols import Symbols

FINAL = 'pedal.core.final_feedback'
SCORING = 'pedal.core.scoring'
FEEDBACK = 'pedal.core.feedback'


class Model:
    def __init__(self, ctx, sym=None):
        self.ctx = ctx
        self.repo = ctx.repo
        self.sym = sym or Symbols(ctx.repo)
        self.fmod = self.repo.module(FINAL)
        self.smod = self.repo.module(SCORING)
        self.merge_fn = self.fmod.func('FinalFeedback.merge')
        self.finalize_fn = self.fmod.func('FinalFeedback.finalize')
        self.init_fn = self.fmod.func('FinalFeedback.__init__')
        self.parse_feedback_fn = self.fmod.func('parse_feedback')
        self.sc_fn = self.fmod.func('set_correct_no_errors')
        self.score_init = self.smod.func('Score.__init__')
        self.score_parse = self.smod.func('Score.parse')
        self.score_add = self.smod.func('Score.add_to_current')
        self.score_pct = self.smod.func('Score.to_percent_string')
        self.combine_fn = self.smod.func('combine_scores')
        for m, f in ((self.fmod, self.merge_fn), (self.fmod, self.finalize_fn), (self.fmod, self.init_fn),
                     (self.fmod, self.parse_feedback_fn), (self.fmod, self.sc_fn), (self.smod, self.score_parse),
                     (self.smod, self.score_add), (self.smod, self.combine_fn), (self.smod, self.score_pct)):
            ctx.analysed_function(m, f)
        try:
            self.pattern_text = self.sym.const(self.smod, self.smod.top_assign('SCORE_PATTERN').args[0])
        except (KeyError, AttributeError, IndexError):
            raise AnalysisError("SCORE_PATTERN is no longer re.compile(<literal>)")
        self.pattern = re.compile(self.pattern_text)   # stdlib re on a string literal, not pedal code
        fb = self.repo.module(FEEDBACK)
        self.consts = {}
        self.KIND_COMPLIMENT = self.sym.const(fb, ast.parse('Feedback.KINDS.COMPLIMENT', mode='eval').body)
        self.KIND_INSTRUCTIONAL = self.sym.const(fb, ast.parse('Feedback.KINDS.INSTRUCTIONAL', mode='eval').body)
        self.NEG = self.sym.const(fb, ast.parse('Feedback.NEGATIVE_VALENCE', mode='eval').body)
        self.POS = self.sym.const(fb, ast.parse('Feedback.POSITIVE_VALENCE', mode='eval').body)
        self.CAT_COMPLETE = self.sym.const(fb, ast.parse('Feedback.CATEGORIES.COMPLETE', mode='eval').body)
        self.default_label = self.sym.const(self.fmod, ast.parse('FinalFeedback.DEFAULT_NO_FEEDBACK_LABEL',
                                                               mode='eval').body)

    # -- interpreter wiring --------------------------------------------------------------------
    def _resolver(self, module):
        from ..fdeval import module_resolver
        return module_resolver(self.sym, module)

    def new_fd(self, module):
        fd = FD(max_steps=200000, resolver=self._resolver(module))

        def b_isinstance(o, t):
            ts = t if isinstance(t, tuple) else (t,)
            if o is UNKNOWN or isinstance(o, Opaque):
                return UNKNOWN
            if isinstance(o, Obj):
                return any(x == o.attrs.get('__class__') for x in ts)
            return isinstance(o, tuple(x for x in ts if isinstance(x, type)))
        fd.calls['isinstance'] = b_isinstance

        def mk_score(*args):
            o = Obj('Score')
            fd.call_function(self.score_init, list(args), bound_self=o)
            o.attrs['method:to_percent_string'] = lambda: fd.call_function(self.score_pct, [], bound_self=o)
            o.attrs['method:add_to_current'] = lambda cur: fd.call_function(self.score_add, [cur], bound_self=o)
            return o
        fd.calls['Score'] = mk_score

        def parse(s):
            if not isinstance(s, str):
                raise Inconclusive('Score.parse of a non-concrete value %r' % (s,))
            return fd.call_function(self.score_parse, [s], bound_self='Score')
        fd.calls['Score.parse'] = parse

        def match(s):
            m = self.pattern.match(s)
            if m is None:
                return None
            o = Obj('match')
            def group(i):
                try:
                    return m.group(i)
                except IndexError:
                    raise Raised('IndexError', 'no such group')
            o.attrs['method:group'] = group
            return o
        pat = Obj('SCORE_PATTERN')
        pat.attrs['method:match'] = match
        self._pat = pat
        fd.calls['SCORE_PATTERN.match'] = match
        fd.functions['parse_feedback'] = self.parse_feedback_fn
        fd.functions['combine_scores'] = self.combine_fn
        fd.calls['float'] = _b_float
        fd.calls['int'] = lambda x: int(x)
        return fd

    def new_final(self, suppressions, suppressed_labels):
        fd = self.new_fd(self.fmod)
        final = Obj('FinalFeedback')
        ci = self.sym.find_class(FINAL, 'FinalFeedback')
        for name, expr in ci.attrs.items():
            try:
                final.attrs[name] = self.sym.const(self.fmod, expr)
            except KeyError:
                pass
        report = Obj('report', suppressions=suppressions, suppressed_labels=suppressed_labels)

        # helper methods a refactoring may extract from merge/finalize are executed abstractly as well
        fd.bind_methods(final, {k: v for k, v in ci.methods.items()
                                if k not in ('__init__', 'merge', 'finalize', '__str__', 'to_json', 'to_file',
                                             'for_console')})

        def ctor(**kw):
            fd.call_function(self.init_fn, [], kw, bound_self=final)
            return final
        fd.calls['FinalFeedback'] = ctor
        r = fd.call_function(self.sc_fn, [report])
        if r is not final:
            raise AnalysisError("set_correct_no_errors does not return the FinalFeedback it constructs")
        return fd, final

    def feedback_class_attrs(self):
        if not hasattr(self, '_fb_attrs'):
            out = {}
            ci = self.sym.find_class(FEEDBACK, 'Feedback')
            for name, expr in ci.attrs.items():
                if expr is None:
                    continue
                try:
                    out[name] = self.sym.const(ci.module, expr, scope=ci)
                except KeyError:
                    out[name] = UNKNOWN
            self._fb_attrs = out
        return self._fb_attrs

    def make_feedback(self, cfg):
        o = self._make_feedback(cfg)
        for k, v in self.feedback_class_attrs().items():
            o.attrs.setdefault(k, v)
        o.attrs['__closed__'] = True
        return o

    def _make_feedback(self, cfg):
        return Obj('Feedback',
                   category=cfg['category'], label=cfg['label'], fields=dict(cfg.get('fields', {})),
                   message=cfg.get('message', 'msg:' + cfg['label']), title=cfg.get('title', 'T:' + cfg['label']),
                   correct=cfg.get('correct'), score=cfg.get('score'), unscored=cfg.get('unscored'),
                   valence=cfg.get('valence'), muted=cfg.get('muted'), kind=cfg.get('kind', 'Mistake'),
                   else_message=cfg.get('else_message'), NEGATIVE_VALENCE=self.NEG, priority=cfg.get('priority'),
                   resolved_score=None, __truth__=cfg['triggered'])

    def resolve(self, cfgs, suppressions=None, suppressed_labels=None):
        """Abstractly run set_correct_no_errors + merge(each) + finalize. Returns dict or ('raised', kind, detail)."""
        fd, final = self.new_final(suppressions or {}, suppressed_labels or {})
        try:
            for cfg in cfgs:
                fd.call_function(self.merge_fn, [self.make_feedback(cfg)], bound_self=final)
            fd.call_function(self.finalize_fn, [], bound_self=final)
        except Raised as r:
            return ('raised', r.kind, r.detail)
        a = final.attrs
        return {'label': a.get('label'), 'title': a.get('title'), 'message': a.get('message'),
                'correct': a.get('correct'), 'score': a.get('score'), 'category': a.get('category'),
                'scores': list(a.get('_scores', []))}

    def run_driver(self, resolve_fn, cfgs, ranks, with_ignored=True, then=None, plain=False, keyword=False):
        """Abstractly run a resolver module's resolve(report, priority_key) on a small report; the key function is a
        symbolic rank. Returns the result dict (or, for the sectional resolver, that of the only group)."""
        fd, final0 = self.new_final({}, {})
        fbs = []
        for cfg, rank in zip(cfgs, ranks):
            o = self.make_feedback(cfg)
            o.attrs['__rank__'] = rank
            o.attrs.setdefault('parent', None)
            fbs.append(o)
        from .. import symexec as _sx
        # (every bookkeeping attribute Report.__init__ creates exists on the model report, empty)
        base_attrs = {k: (type(v)() if isinstance(v, (list, dict, set)) else v)
                      for k, v in _sx.init_literals(self.ctx.repo.module('pedal.core.report'), 'Report').items()}
        base_attrs.update(suppressions={}, suppressed_labels={}, resolves=[], result=None,
                          feedback=[o for o in fbs if truth(o)], ignored_feedback=[o for o in fbs if not truth(o)])
        report = Obj('report', **base_attrs)
        report.attrs['method:finalize_feedbacks'] = lambda: None
        report.attrs['method:execute_hooks'] = lambda *a, **k: None
        # the global report is another, empty report: a resolver asked about `report` that answers for MAIN_REPORT
        # says "no errors"
        main_attrs = {k: (type(v)() if isinstance(v, (list, dict, set)) else v) for k, v in base_attrs.items()}
        main_attrs.update(resolves=[], result=None)
        self._main_report = Obj('MAIN_REPORT', **main_attrs)
        self._main_report.attrs['method:finalize_feedbacks'] = lambda: None
        self._main_report.attrs['method:execute_hooks'] = lambda *a, **k: None
        finals = []

        def fresh_final(rep):
            # set_correct_no_errors(report): a new FinalFeedback each time it is called
            fd2, final = self.new_final(rep.attrs.get('suppressions', {}), rep.attrs.get('suppressed_labels', {}))
            final.attrs['__fd__'] = fd2
            finals.append(final)
            return final
        fd.calls['set_correct_no_errors'] = fresh_final

        def b_isinstance(o, t):
            ts = t if isinstance(t, tuple) else (t,)
            # (a pedal class used as a value - `isinstance(argument, Report)` - names the model object of that class)
            ts = tuple(getattr(getattr(x, '_fd_class', None), 'name', x) for x in ts)
            return any(isinstance(x, str) and isinstance(o, Obj) and o._name.lower() == x.lower() for x in ts) or \
                any(isinstance(x, type) and not isinstance(o, Obj) and isinstance(o, x) for x in ts)
        fd.calls['isinstance'] = b_isinstance
        inner_resolver = fd.resolver
        main_report = self._main_report
        fd.resolver = lambda n: 'FinalFeedback' if n == 'FinalFeedback' else (
            main_report if n == 'MAIN_REPORT' else inner_resolver(n))
        fd.methods['merge'] = lambda recv, fb: recv.attrs['__fd__'].call_function(self.merge_fn, [fb], bound_self=recv)
        fd.methods['finalize'] = lambda recv: recv.attrs['__fd__'].call_function(self.finalize_fn, [], bound_self=recv)
        key = lambda fb: fb.attrs['__rank__']
        try:
            resolver = self.decorated(fd, resolve_fn)
            # plain: the form scripts and environments use - resolve(report) with the resolver's own default key
            # keyword: the form batch graders use for a report of their own - resolve(report=r)
            out = resolver(report=report) if keyword else (resolver(report) if plain else resolver(report, key))
            if then is not None:
                # the same report is resolved again after its visibility changed (an environment resolves on exit
                # although the script already did; an instructor mutes or suppresses something in between)
                then(fbs, report)
                out = resolver(report=report) if keyword else (resolver(report) if plain else resolver(report, key))
        except Raised as r:
            return ('raised', r.kind, r.detail)
        except Inconclusive as e:
            raise AnalysisError("resolve() is outside the decidable fragment: %s" % e)
        if isinstance(out, dict):
            if len(out) > 1:
                raise Inconclusive('driver: more than one group for ungrouped feedback')
            out = list(out.values())[0] if out else None
            if out is None:
                # sectional resolver with no triggered feedback: no group at all
                return {'label': self.default_label, 'correct': True, 'score': 1}
        if not isinstance(out, Obj):
            return ('raised', 'TypeError', 'resolve returned %r instead of the final feedback' % (out,))
        if report.attrs.get('result') is None or not report.attrs.get('resolves'):
            return ('raised', 'AssertionError', 'resolve does not store the result on the report')
        a = out.attrs
        return {'label': a.get('label'), 'title': a.get('title'), 'message': a.get('message'),
                'correct': a.get('correct'), 'score': a.get('score'), 'category': a.get('category')}

    def suppress_tables(self, *calls_):
        """(suppressions, suppressed_labels) as Report.suppress itself builds them (executed abstractly) for the given
        keyword-argument dicts, applied in order to one report."""
        from ..fdeval import module_resolver
        rmod = self.ctx.repo.module('pedal.core.report')
        fn = rmod.func('Report.suppress')
        self.ctx.analysed_function(rmod, fn)
        rep = Obj('Report', suppressions={}, suppressed_labels={})
        rep.attrs['__classdef__'] = rmod.cls('Report')
        for kwargs in calls_:
            fd0 = FD(max_steps=100000, resolver=module_resolver(self.sym, rmod))
            fd0.calls['isinstance'] = lambda o, t: isinstance(o, t) if isinstance(t, (type, tuple)) else False
            try:
                fd0.call_function(fn, [], dict(kwargs), bound_self=rep)
            except Inconclusive as e:
                raise AnalysisError("Report.suppress outside the decidable fragment: %s" % e)
        return rep.attrs['suppressions'], rep.attrs['suppressed_labels']

    def decorated(self, fd, resolve_fn):
        """The resolver as callers get it: resolve() wrapped by its own decorators (make_resolver), each interpreted."""
        from ..astutil import dotted

        def call(*a, **k):
            return fd.call_function(resolve_fn, list(a), k)
        call._fd_callable = True
        mod = getattr(resolve_fn, '_module', None)
        for deco in reversed(resolve_fn.decorator_list):
            name = dotted(deco)
            target = self.sym.resolve_name(mod, name) if (mod is not None and name) else None
            if not (isinstance(target, tuple) and target and target[0] == 'func'):
                raise Inconclusive('driver: decorator %s of resolve() does not resolve to a pedal function' % (
                    name or ast.unparse(deco)))
            main = getattr(self, '_main_report', None)
            if main is None:
                main = Obj('MAIN_REPORT', result=None)
                main.attrs['method:execute_hooks'] = lambda *a, **k: None
            saved = fd.resolver

            def with_main(n, saved=saved, main=main):
                if n == 'MAIN_REPORT':
                    return main
                return saved(n)
            fd.resolver = with_main
            try:
                call = fd.call_function(target[2], [call])
            finally:
                fd.resolver = saved
            if not callable(call):
                raise Inconclusive('driver: decorator %s did not return a callable' % name)
        return call

    # -- oracle (transcribed from C01/C02/C03) ---------------------------------------------------
    def suppressed(self, cfg, suppressions, suppressed_labels):
        cat = (cfg['category'] or '').lower()
        if cat in suppressions:
            if True in suppressions[cat]:
                return True
            lab = cfg['label'].lower()
            if lab in suppressions[cat]:
                for fields in suppressions[cat][lab]:
                    if all(cfg.get('fields', {}).get(k) == v for k, v in fields.items()):
                        return True
        if cfg['label'] in suppressed_labels:
            for fields in suppressed_labels[cfg['label']]:
                if all(cfg.get('fields', {}).get(k) == v for k, v in fields.items()):
                    return True
        return False

    def oracle_by_calls(self, cfgs, calls_):
        """The oracle for suppressions given as suppress(...) calls: category (case-insensitive) alone hides the whole
        category, category + label hides that label (case-insensitive) when the given fields match, a label alone
        hides feedback with exactly that label when the given fields match."""
        s, sl = {}, {}
        for kw_ in calls_:
            cat, label, fields = kw_.get('category'), kw_.get('label', True), kw_.get('fields') or {}
            if cat is None:
                sl.setdefault(label, []).append(dict(fields))
            else:
                key = label.lower() if isinstance(label, str) else label
                s.setdefault(cat.lower(), {}).setdefault(key, []).append(dict(fields))
        return self.oracle(cfgs, s, sl)

    def oracle(self, cfgs, suppressions=None, suppressed_labels=None):
        suppressions = suppressions or {}
        suppressed_labels = suppressed_labels or {}
        eligible = [c for c in cfgs if c['triggered'] and not c.get('muted') and
                    not self.suppressed(c, suppressions, suppressed_labels)
                    and c.get('kind', 'Mistake') != self.KIND_COMPLIMENT]
        shown = eligible[0] if eligible else None
        out = {}
        out['label'] = shown['label'] if shown else self.default_label
        hide = suppressions.get('correct', suppressions.get('success', False))
        if shown is None and not hide:
            out['correct'] = True
            out['score'] = 1
        else:
            out['correct'] = all(bool(c.get('correct')) for c in eligible)
            total = 0.0
            for c in cfgs:
                if self.suppressed(c, suppressions, suppressed_labels) or c.get('unscored') or c.get('score') is None:
                    continue
                negative = c.get('valence') == self.NEG
                awards = (not c['triggered']) if negative else c['triggered']
                if not awards:
                    continue
                total += score_value(c['score'])
            out['score'] = round(total, 2)
        return out


def score_value(s):
    """Documented meaning of a score: number, '+N', 'N%' = N/100, '-N' subtracts."""
    if isinstance(s, (int, float)):
        return float(s)
    t = s.strip()
    sign = 1.0
    if t[0] in '+-':
        sign = -1.0 if t[0] == '-' else 1.0
        t = t[1:]
    pct = t.endswith('%')
    if pct:
        t = t[:-1]
    v = float(t)
    return sign * (v / 100.0 if pct else v)


def _b_float(x):
    if x is UNKNOWN:
        return UNKNOWN
    try:
        return float(x)
    except (ValueError, TypeError):
        raise Raised('ValueError', 'float(%r)' % (x,))
