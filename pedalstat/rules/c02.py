"""C02 - a submission is marked correct exactly when no shown negative feedback fired."""
import ast
import itertools

from ..astutil import dotted, calls, call_name, body_walk, kw
from ..loader import AnalysisError, norm
from ..symbols import Symbols, ClassInfo
from .resolver_model import Model
from .c01 import domain_eligibility

FEEDBACK = 'pedal.core.feedback'
COMMANDS = 'pedal.core.commands'
FINAL = 'pedal.core.final_feedback'


def r1_r3_correct_table(ctx, sym, model):
    ctx.rule('R1', "decision table of merge/finalize (abstract interpretation): resolved `correct` equals the "
                   "conjunction of `correct` over triggered, unmuted, unsuppressed, non-compliment feedback (true when "
                   "there is none), over single feedbacks x 11 suppression scenarios and over ordered pairs/triples "
                   "mixing set_correct-like, compliment-like, give_partial-like and negative feedback")
    n = 0
    bad = []
    for sname, s, sl, cfg in domain_eligibility(model):
        n += 1
        got, want = model.resolve([cfg], s, sl), model.oracle([cfg], s, sl)
        if isinstance(got, tuple):
            continue  # raising cells are C01.R6's business
        if bool(got['correct']) != bool(want['correct']) or not isinstance(got['correct'], bool):
            bad.append((sname, cfg, got['correct'], want['correct']))
    kinds = [
        dict(category='complete', label='set_correct', triggered=True, correct=True, valence=1, score=1),
        dict(category='instructor', label='compliment', triggered=True, correct=True, kind=model.KIND_COMPLIMENT),
        dict(category='instructor', label='give_partial', triggered=True, muted=True, correct=None, score='+10%'),
        dict(category='runtime', label='runtime_error', triggered=True, correct=None),
        dict(category='syntax', label='syntax_error', triggered=True, correct=None, muted=True),
        dict(category='algorithmic', label='tifa', triggered=False, correct=None),
        dict(category='instructor', label='explain', triggered=True, correct=False),
        dict(category='instructor', label='explain_blank', triggered=True, correct=False, message=''),
        dict(category='specification', label='assert_equal', triggered=True, correct=None, else_message='ok'),
        dict(category='specification', label='assert_ok', triggered=False, correct=None, else_message='ok'),
        # visible positive-valence feedback that does not declare the submission correct; visible negative feedback
        # that is merely kept out of the score
        dict(category='instructor', label='partial_shown', triggered=True, muted=False, correct=None, valence=1,
             score='+25%'),
        dict(category='instructor', label='explain_unscored', triggered=True, correct=False, unscored=True),
        dict(category='runtime', label='runtime_unscored', triggered=True, correct=None, unscored=True, valence=-1),
    ]
    sup = {'specification': {True: [{}]}}
    for seq in itertools.chain(itertools.product(kinds, repeat=1), itertools.product(kinds, repeat=2),
                               itertools.product(kinds[:8], repeat=3)):
        for s in ({}, sup):
            n += 1
            got, want = model.resolve(list(seq), s, {}), model.oracle(list(seq), s, {})
            if isinstance(got, tuple):
                bad.append(('raises', [c['label'] for c in seq], got, None))
                continue
            if got['correct'] is not want['correct']:
                bad.append(('seq', [c['label'] for c in seq], got['correct'], want['correct']))
    ctx.floor('R1', 'correctness table cells', n, 900)
    if bad:
        groups = {}
        for b in bad:
            groups.setdefault(b[0], []).append(b)
        for g, items in sorted(groups.items()):
            ex = items[0]
            ctx.fail('R1', 'merge:correct[%s]' % g, model.fmod, model.merge_fn,
                     "%d cell(s) report the wrong correctness; e.g. %r resolves to correct=%r, the property requires %r"
                     % (len(items), ex[1], ex[2], ex[3]),
                     "report containing %r (suppression scenario %s)" % (ex[1], g),
                     function='FinalFeedback.merge/finalize', construct='self.correct = ...')
    else:
        ctx.ok('R1', 'merge:correct', sample={'cells': n, 'mismatches': 0})
    ctx.info("correctness table: %d cells, %d mismatches" % (n, len(bad)))


def r4_initial(ctx, sym, model):
    ctx.rule('R4', "set_correct_no_errors builds FinalFeedback(correct=True, category=COMPLETE, label=default) from "
                   "the report's live suppressions / suppressed_labels")
    fn = model.sc_fn
    cs = [c for c in calls(fn) if call_name(c) == 'FinalFeedback']
    ctx.require(len(cs) == 1, "set_correct_no_errors no longer constructs one FinalFeedback")
    c = cs[0]
    p = fn.args.args[0].arg
    want = {'correct': 'True', 'suppressions': p + '.suppressions', 'suppressed_labels': p + '.suppressed_labels',
            'category': 'Feedback.CATEGORIES.COMPLETE', 'label': 'FinalFeedback.DEFAULT_NO_FEEDBACK_LABEL'}
    for k, v in want.items():
        ctx.check(norm(kw(c, k)) == v, 'R4', 'set_correct_no_errors:' + k, model.fmod, c,
                  "FinalFeedback(%s=%s), expected %s" % (k, norm(kw(c, k)), v),
                  "the default result is wrong or suppressions registered on the report are ignored",
                  construct='%s=%s' % (k, norm(kw(c, k))))


NEGATIVE_CATEGORIES = {'syntax', 'runtime', 'algorithmic', 'specification', 'mistakes', 'student', 'system'}


def r5_class_defaults(ctx, sym):
    ctx.rule('R5', "class table over every Feedback subclass in pedal: set_correct.correct is True, compliment is a "
                   "COMPLIMENT, give_partial is muted; no class of negative valence or of a syntax/runtime/algorithmic/"
                   "specification/mistakes/student category declares correct=True")
    base = sym.find_class(FEEDBACK, 'Feedback')
    subs = sym.subclasses(base)
    ctx.floor('R5', 'Feedback subclasses', len(subs), 150)
    cmod = ctx.repo.module(COMMANDS)

    def attr_const(ci, name):
        owner = sym.class_attr(ci, name)
        if owner is None or owner[1] is None or isinstance(owner[1], ast.FunctionDef):
            return None
        try:
            return sym.const(owner[0].module, owner[1], scope=owner[0])
        except KeyError:
            return '<non-constant>'
    sc = sym.find_class(COMMANDS, 'set_correct')
    ctx.check(attr_const(sc, 'correct') is True, 'R5', 'set_correct.correct', cmod, sc.node,
              "set_correct no longer declares correct=True", "set_correct() alone does not mark the submission correct")
    cp = sym.find_class(COMMANDS, 'compliment')
    kind_compl = sym.const(ctx.repo.module(FEEDBACK), ast.parse('Feedback.KINDS.COMPLIMENT', mode='eval').body)
    ctx.check(attr_const(cp, 'kind') == kind_compl, 'R5', 'compliment.kind', cmod, cp.node,
              "compliment is not of kind COMPLIMENT", "a compliment is shown as the main feedback")
    gp = sym.find_class(COMMANDS, 'give_partial')
    ctx.check(attr_const(gp, 'muted') is True, 'R5', 'give_partial.muted', cmod, gp.node,
              "give_partial is not muted", "partial credit hides real feedback")
    neg = sym.const(ctx.repo.module(FEEDBACK), ast.parse('Feedback.NEGATIVE_VALENCE', mode='eval').body)
    n = 0
    for ci in sorted(subs, key=lambda c: (c.module.name, c.qualname)):
        correct = attr_const(ci, 'correct')
        cat = attr_const(ci, 'category')
        val = attr_const(ci, 'valence')
        n += 1
        negative = (val == neg) or (isinstance(cat, str) and cat.lower() in NEGATIVE_CATEGORIES)
        key = '%s:%s.correct' % (ci.module.name.split('.', 1)[-1], ci.qualname)
        if negative:
            ctx.check(not correct, 'R5', key, ci.module, ci.node,
                      "feedback class %s (category %r, valence %r) declares correct=%r" % (ci.name, cat, val, correct),
                      "a triggered, visible %s feedback leaves the submission marked correct" % ci.name,
                      construct='class %s: correct = %r' % (ci.name, correct))
        else:
            ctx.ok('R5', key, nontrivial=False)
    ctx.ok('R5', 'class-table', sample={'classes': n})


KIND_NAMES = ('MISCONCEPTION', 'MISTAKE', 'HINT', 'CONSTRAINT', 'METACOGNITIVE', 'REINFORCEMENT', 'ENCOURAGEMENT',
              'RESULT', 'PERFORMANCE', 'INSTRUCTIONAL', 'META')   # confirmed by reading feedback_category.py


def r11_kinds_distinct(ctx, sym):
    ctx.rule('R11', "merge() sets aside exactly the feedback whose kind equals Feedback.KINDS.COMPLIMENT: each other "
                    "kind constant of FeedbackKind (the names confirmed on today's tree; a new alias name for "
                    "COMPLIMENT is not looked at) evaluates to a value different from COMPLIMENT's, so a triggered, "
                    "visible feedback of that kind still takes part in the correctness conjunction")
    fb = ctx.repo.module(FEEDBACK)
    compl = sym.const(fb, ast.parse('Feedback.KINDS.COMPLIMENT', mode='eval').body)
    n = 0
    for name in KIND_NAMES:
        expr = ast.parse('Feedback.KINDS.%s' % name, mode='eval').body
        try:
            val = sym.const(fb, expr)
        except KeyError:
            ctx.ok('R11', 'kind:' + name, nontrivial=False)   # the name is gone: nothing can carry it
            continue
        n += 1
        ki = sym.find_class('pedal.core.feedback_category', 'FeedbackKind')
        ctx.check(val != compl, 'R11', 'kind:' + name, ki.module, ki.attrs.get(name) or ki.node,
                  "FeedbackKind.%s evaluates to %r, the value merge() compares with to set compliments aside" % (name, val),
                  "a triggered, unmuted feedback of kind %s with correct=False no longer makes the result incorrect"
                  % name, function='FeedbackKind', construct='%s = %r' % (name, val))
    ctx.floor('R11', 'kind constants evaluated', n, 8)


def run(ctx):
    sym = Symbols(ctx.repo)
    model = Model(ctx, sym)
    r1_r3_correct_table(ctx, sym, model)
    r4_initial(ctx, sym, model)
    r5_class_defaults(ctx, sym)
    r11_kinds_distinct(ctx, sym)
    # the merge/finalize table above speaks about resolve() only if resolve() feeds every feedback through it
    from .c01 import r3_r5_resolvers
    r3_r5_resolvers(ctx, sym, ids=('R6', 'R7'), writers=False)
    # merge() takes the label/category (which finalize() needs to tell a mistake from "nothing fired") only from
    # feedback whose message is not None: a triggered feedback must therefore always get a message text
    ctx.rule('R8', "Feedback._get_message executed abstractly (explicit text / template rendering to text, blanks or "
                   "nothing / neither): a triggered feedback always has a message that is not None, so merge() records "
                   "its label and finalize() cannot mistake it for the default 'no errors' result (shared with C20.R5)")
    from .c20 import message_rule
    message_rule(ctx, sym, 'R8')
    ctx.rule('R9', "Feedback.__init__ executed abstractly for correct, muted and kind: the explicit keyword argument "
                   "(correct=False, muted=False included) is what the instance carries into merge() (shared with "
                   "C20.R8)")
    from .c20 import constructor_rule
    constructor_rule(ctx, sym, 'R9', ['correct', 'muted', 'kind'])
    # what decides visibility must belong to this grading: suppressions of an earlier one are gone after clear()
    from .c13 import r2_clear_complete
    r2_clear_complete(ctx, sym, rule='R10', only={'suppressions', 'suppressed_labels', 'hiddens', 'feedback',
                                                  'ignored_feedback'})
    ctx.assume("instructor-defined Feedback subclasses are outside the class table")
