"""C03 - the final score follows the documented valence/trigger arithmetic."""
import ast
import itertools
import re

from ..astutil import dotted, calls, call_name, body_walk, walk_local, method_calls
from ..loader import AnalysisError, norm
from ..fdeval import Raised
from ..symbols import Symbols
from .resolver_model import Model, score_value

ASSERT_CMDS = 'pedal.assertions.commands'


def r1_r4_score_table(ctx, sym, model):
    ctx.rule('R1', "decision table of merge + Score.parse + add_to_current + combine_scores + finalize by abstract "
                   "interpretation: over valence {-1,0,1,None} x triggered x score form {'+N','N','N%','-N','-N%',"
                   "number} x unscored x muted x suppressed, next to a scoreless anchor that prevents the default-"
                   "correct result, the resolved score equals the documented sum rounded to two decimals; ordered "
                   "pairs and triples check summation")
    anchor = dict(category='instructor', label='anchor', triggered=True)
    scores = ['+5', '5', '10%', '+10%', '-5', '-10%', 0.25, 2, '0.125', '+.5']
    n = 0
    bad = []
    raised = []
    for val, trig, sc, unsc, muted, sup in itertools.product((-1, 0, 1, None), (True, False), scores,
                                                             (None, True), (None, True), (False, True)):
        cfg = dict(category='specification', label='S', triggered=trig, valence=val, score=sc, unscored=unsc,
                   muted=muted)
        s = {'specification': {True: [{}]}} if sup else {}
        for seq in ([anchor, cfg], [cfg, anchor]):
            n += 1
            got, want = model.resolve(seq, s, {}), model.oracle(seq, s, {})
            if isinstance(got, tuple):
                raised.append((cfg, got))
                continue
            if got['score'] != want['score']:
                bad.append((cfg, sup, got['score'], want['score'], got['scores']))
    # feedback that carries an else-message (shown among the positives when its problem was not detected) scores like
    # any other feedback
    for val, trig, sc, muted in itertools.product((-1, 0, 1, None), (True, False), scores[:7], (None, True)):
        cfg = dict(category='specification', label='S', triggered=trig, valence=val, score=sc, muted=muted,
                   else_message='well done')
        for seq in ([anchor, cfg], [cfg, anchor]):
            n += 1
            got, want = model.resolve(seq, {}, {}), model.oracle(seq, {}, {})
            if isinstance(got, tuple):
                raised.append((cfg, got))
            elif got['score'] != want['score']:
                bad.append((cfg, False, got['score'], want['score'], got['scores']))
    # every way of suppressing the scored feedback (and combinations with unrelated entries of the same category)
    sup_variants = [
        ({'specification': {'s': [{}]}}, {}),                                   # category + label
        ({}, {'S': [{}]}),                                                      # label only
        ({'specification': {'other': [{}]}}, {'S': [{}]}),                      # label only, category has other entries
        ({'specification': {'s': [{'k': 'no-match'}]}}, {'S': [{}]}),           # label only, category entry not matching
        ({'specification': {'other': [{}]}}, {}),                               # unrelated entry only: not suppressed
        ({}, {'S': [{'k': 'no-match'}]}),                                       # label only, fields not matching
        ({}, {'S': [{'k': 1}]}),                                                # label + matching fields
    ]
    for val, trig, sc in itertools.product((-1, 1, None), (True, False), ('+5', 0.25, '10%')):
        cfg = dict(category='specification', label='S', triggered=trig, valence=val, score=sc, fields={'k': 1})
        for s_, sl_ in sup_variants:
            n += 1
            seq = [anchor, cfg]
            got, want = model.resolve(seq, s_, sl_), model.oracle(seq, s_, sl_)
            if isinstance(got, tuple):
                raised.append((cfg, got))
            elif got['score'] != want['score']:
                bad.append((cfg, (s_, sl_), got['score'], want['score'], got['scores']))
    # ... and the same with the tables built by Report.suppress itself (writer/reader agreement): a suppressed
    # feedback contributes nothing to the score, however the suppression was spelled
    writer_calls = [
        [dict(label='S')], [dict(label='S', fields={'k': 1})], [dict(category='specification', label='S')],
        [dict(category='Specification', label='S', fields={'k': 1})], [dict(category='specification')],
        [dict(label='BonusPoints')], [dict(label='S', fields={'k': 'no-match'})],
        [dict(category='specification', label='other'), dict(label='S')],
    ]
    for calls_ in writer_calls:
        try:
            s_, sl_ = model.suppress_tables(*calls_)
        except Raised:
            continue    # C01.R6 reports a raising suppress()
        for label, val, trig, sc in itertools.product(('S', 'BonusPoints'), (-1, 1), (True, False), ('+5', 0.25)):
            cfg = dict(category='specification', label=label, triggered=trig, valence=val, score=sc, fields={'k': 1})
            n += 1
            seq = [anchor, cfg]
            got, want = model.resolve(seq, s_, sl_), model.oracle_by_calls(seq, calls_)
            if isinstance(got, tuple):
                raised.append((cfg, got))
            elif got['score'] != want['score']:
                bad.append((cfg, 'suppress(%s)' % '; '.join(', '.join('%s=%r' % kv for kv in c.items())
                                                            for c in calls_), got['score'], want['score'],
                            got['scores']))
    # default-correct result scores 1
    for cfg in (dict(category='specification', label='S', triggered=False, valence=-1, score='+5'),
                dict(category='instructor', label='P', triggered=True, valence=1, score='+5', muted=True)):
        n += 1
        got, want = model.resolve([cfg]), model.oracle([cfg])
        if isinstance(got, tuple) or got['score'] != want['score']:
            bad.append((cfg, False, got if isinstance(got, tuple) else got['score'], want['score'], None))
    # sums and rounding
    pool = [dict(category='specification', label='a', triggered=False, valence=-1, score='10%'),
            dict(category='specification', label='b', triggered=True, valence=-1, score='10%'),
            dict(category='instructor', label='c', triggered=True, valence=1, score='+0.125', muted=True),
            dict(category='instructor', label='d', triggered=True, valence=1, score=0.001, muted=True),
            dict(category='specification', label='e', triggered=False, valence=-1, score='-5%'),
            dict(category='instructor', label='f', triggered=True, valence=0, score='33%', muted=True)]
    for k in (2, 3):
        for seq in itertools.product(pool, repeat=k):
            n += 1
            seq = [anchor] + list(seq)
            got, want = model.resolve(seq), model.oracle(seq)
            if isinstance(got, tuple):
                raised.append((seq[-1], got))
            elif got['score'] != want['score']:
                bad.append(([c['label'] for c in seq], False, got['score'], want['score'], got['scores']))
    ctx.floor('R1', 'score table cells', n, 1500)
    if bad:
        groups = {}
        for b in bad:
            cfg = b[0]
            k = 'sum' if isinstance(cfg, list) else 'valence=%r,triggered=%r,score=%r' % (
                cfg.get('valence'), cfg['triggered'], cfg.get('score'))
            groups.setdefault(k, []).append(b)
        for k, items in sorted(groups.items())[:12]:
            ex = items[0]
            ctx.fail('R1', 'score[%s]' % k, model.fmod, model.merge_fn,
                     "%d cell(s) with a wrong score; e.g. %r (suppressed=%r) resolves to score %r via %r, the "
                     "documented arithmetic gives %r" % (len(items), ex[0], ex[1], ex[2], ex[4], ex[3]),
                     "a report with that feedback next to one shown feedback without a score",
                     function='FinalFeedback.merge / Score.add_to_current / combine_scores',
                     construct='score arithmetic')
    else:
        ctx.ok('R1', 'score-table', sample={'cells': n, 'mismatches': 0})
    if raised:
        ex = raised[0]
        ctx.fail('R1', 'score:raises', model.fmod, model.merge_fn,
                 "score handling raises %r for %r" % (ex[1], ex[0]), "such a feedback makes resolve() raise",
                 function='FinalFeedback.merge')
    ctx.info("score table: %d cells, %d mismatches, %d raising" % (n, len(bad), len(raised)))


def r3_parse(ctx, sym, model):
    ctx.rule('R3', "SCORE_PATTERN (regex AST): five groups in the order inversions, operator, digits, %, rest; "
                   "Score.parse tabulated by abstract interpretation over score strings: value, N% = N/100, "
                   "inversion parity, operator")
    import re._parser as sre_parse
    parsed = sre_parse.parse(model.pattern_text)
    groups = [(op, av) for op, av in parsed if str(op) == 'SUBPATTERN' or str(op) == 'MAX_REPEAT'
              and str(av[2][0][0]) == 'SUBPATTERN']
    ctx.check(model.pattern.groups == 5, 'R3', 'SCORE_PATTERN:groups', model.smod,
              model.smod.top_assign('SCORE_PATTERN'),
              "SCORE_PATTERN has %d groups, Score.parse reads 5" % model.pattern.groups,
              "every score string is parsed wrongly", construct=model.pattern_text)
    fd = model.new_fd(model.smod)
    cases = {'+5': (False, '+', 5.0), '5': (False, None, 5.0), '10%': (False, None, 0.1), '-5': (False, '-', 5.0),
             '-10%': (False, '-', 0.1), '!+5': (True, '+', 5.0), '!!+5': (False, '+', 5.0), '!!!5%': (True, None, 0.05),
             '0.25': (False, None, 0.25), '*2': (False, '*', 2.0), '/4': (False, '/', 4.0), '100%': (False, None, 1.0)}
    from ..fdeval import Raised
    for text, (inv, op, val) in cases.items():
        try:
            o = fd.calls['Score.parse'](text)
            got = (o.attrs.get('invert'), o.attrs.get('operator'), o.attrs.get('value'))
        except Raised as r:
            got = ('raised', r.kind, r.detail)
        ctx.check(got == (inv, op, val), 'R3', 'Score.parse(%r)' % text, model.smod, model.score_parse,
                  "Score.parse(%r) gives (invert, operator, value) = %r, documented meaning %r" % (
                      text, got, (inv, op, val)),
                  "a feedback with score=%r" % text, construct='Score.parse', sample={'text': text, 'parsed': got})
    # writer/reader agreement: numeric scores are rendered with an f-string and re-parsed
    for x in (0.5, 0.25, 5, 1.0, 100, 0.0001, 0.00001, 2.5e-07):
        text = "%s" % (x,)
        m = model.pattern.match(text)
        if model.pattern.groups != 5:
            continue   # reported above
        ok = m is not None and m.group(5) == '' and float(m.group(3)) == float(x) and not m.group(2)
        ctx.check(ok, 'R3', 'numeric-score-roundtrip(%r)' % (x,), model.fmod, model.merge_fn,
                  "a numeric score %r is rendered as %r by the f-string in merge and re-parsed by SCORE_PATTERN as "
                  "value %r with leftovers %r" % (x, text, m.group(3) if m else None, m.group(5) if m else None),
                  "give_partial(%r): the points awarded are %s instead of %r" % (
                      x, m.group(3) if m else '?', x), construct='f"{inversion}{partial}" vs SCORE_PATTERN')


def unit_test_runs(ctx, sym):
    """unit_test(...) executed abstractly (with the real partial_credit_logic) over numbers of cases x score x
    partial_credit forms x argument shapes. Yields (scenario, observations)."""
    from .. import symexec
    from ..fdeval import Obj, Raised
    from .resolver_model import score_value
    mod = ctx.repo.module(ASSERT_CMDS)
    ut = mod.func('unit_test')
    ctx.analysed_function(mod, ut)
    ctx.analysed_function(mod, mod.func('partial_credit_logic'))

    class ParsedScore(float):
        """Score.parse(...) on a literal: the documented value; supports the division unit_test applies."""
        def __truediv__(self, n):
            return ParsedScore(float(self) / n)

        def __str__(self):
            return repr(float(self))
    for n_cases in (1, 2, 3):
        for score in (None, '+20%', '10', 0.5):
            for pc in (False, True, '5%', 0.25, ['1', '2', '3'][:n_cases]):
                for str_args in (False, True):
                    rec = symexec.Recorder()
                    group = Obj('group', successes=[], failures=[], errors=[], score=None, valence=None,
                                POSITIVE_VALENCE=1)
                    group.attrs['__truth__'] = False
                    cm = Obj('unit-test-context')
                    symexec.method(cm, '__enter__', lambda: group)
                    symexec.method(cm, '__exit__', lambda *a: False)
                    tests = [(('arg%d' % i) if str_args else (i, i + 1), 'expected%d' % i) for i in range(n_cases)]
                    results = [symexec.marker('result-of-call-%d' % i) for i in range(n_cases)]
                    counter = {'i': 0}

                    def call(*a, **k):
                        rec.events.append(('call', a, k))
                        r = results[min(counter['i'], n_cases - 1)]
                        counter['i'] += 1
                        return r
                    assert_stub = rec.stub('assert')
                    fd = symexec.new_fd(sym, mod, extra={'assert_equal': assert_stub}, calls={
                        '_unit_test_class': rec.stub('_unit_test_class', ret=cm), 'call': call,
                        'assert_equal': assert_stub, 'combine_scores': rec.stub('combine_scores', ret='COMBINED'),
                        'Score.parse': lambda s_: ParsedScore(score_value(s_)),
                        'isinstance': lambda o, t: isinstance(o, t) if isinstance(t, (type, tuple)) and all(
                            isinstance(x, type) for x in (t if isinstance(t, tuple) else (t,))) else False,
                        'get_sandbox': lambda *a: Obj('sandbox')})
                    value, raised = symexec.run(fd, ut, ['f'] + tests, {'score': score, 'partial_credit': pc},
                                                what='unit_test')
                    yield (dict(n=n_cases, score=score, partial_credit=pc, str_args=str_args, tests=tests),
                           dict(rec=rec, group=group, value=value, raised=raised, results=results))


def r5_unit_test_split(ctx, sym):
    ctx.rule('R5', "unit_test executed abstractly with the real partial_credit_logic, over 1-3 cases x score forms x "
                   "partial_credit forms: the assert function is called once per case, in order, with the result of "
                   "calling the student function and the expected value; with partial_credit=True the per-case scores "
                   "add up to `score`, a single value is given to every case, a list is used positionally, and with "
                   "partial_credit=False the group's score is `score` unchanged")
    from .resolver_model import score_value
    mod = ctx.repo.module(ASSERT_CMDS)
    ut = mod.func('unit_test')
    n = 0
    for sc, ob in unit_test_runs(ctx, sym):
        n += 1
        tag = '[cases=%d,score=%r,partial_credit=%r%s]' % (sc['n'], sc['score'], sc['partial_credit'],
                                                           ',string-args' if sc['str_args'] else '')
        rec = ob['rec']
        if ob['raised'] is not None:
            ctx.fail('R5', 'unit_test:raises' + tag, mod, ut, "unit_test raises %s (%s)" % (
                ob['raised'].kind, ob['raised'].detail), "unit_test('f', ..., score=%r, partial_credit=%r)" % (
                sc['score'], sc['partial_credit']))
            continue
        asserts = rec.named('assert')
        per_case = [a[2].get('score', 'missing') for a in asserts]
        pc, score = sc['partial_credit'], sc['score']
        if pc is True and score:
            try:
                ok = len(per_case) == sc['n'] and abs(sum(score_value(x) for x in per_case) - score_value(score)) < 1e-9
            except Exception:
                ok = False
            want = '%d scores adding up to %r' % (sc['n'], score)
        elif pc is True or pc is False:
            ok, want = per_case == [None] * sc['n'], 'no per-case score'
        elif isinstance(pc, list):
            ok, want = per_case == pc, 'the instructor list %r, positionally' % (pc,)
        else:
            ok, want = per_case == [pc] * sc['n'], '%r for every case' % (pc,)
        ctx.check(ok, 'R5', 'unit_test:per-case-scores' + tag, mod, ut,
                  "the cases are given the scores %r; expected %s" % (per_case, want),
                  "unit_test with several cases gives a case another case's score, or partial credit does not add up "
                  "to the total")
        if pc is False:
            ctx.check(ob['group'].attrs['score'] == score, 'R5', 'unit_test:all-or-nothing' + tag, mod, ut,
                      "with partial_credit=False the group's score is %r, not `score` (%r) unchanged" % (
                          ob['group'].attrs['score'], score), "unit_test(score=%r) awards something else" % (score,))
    ctx.floor('R5', 'unit_test scenarios', n, 60)


def run(ctx):
    sym = Symbols(ctx.repo)
    model = Model(ctx, sym)
    r1_r4_score_table(ctx, sym, model)
    r3_parse(ctx, sym, model)
    r5_unit_test_split(ctx, sym)
    # the merge/finalize table above speaks about resolve() only if resolve() feeds every feedback through it
    from .c01 import r3_r5_resolvers
    r3_r5_resolvers(ctx, sym, ids=('R6', 'R7'), writers=False)
    # the score table takes each feedback's valence / score / unscored / muted as given: the constructor must store
    # what the caller passed
    ctx.rule('R8', "Feedback.__init__ executed abstractly for valence, score, unscored and muted: an explicit keyword "
                   "argument - falsy ones (neutral valence 0, score 0, False) included - becomes the instance's value "
                   "(shared with C20.R8)")
    from .c20 import constructor_rule
    constructor_rule(ctx, sym, 'R8', ['valence', 'score', 'unscored', 'muted'])
    ctx.assume("floating-point rounding of particular sums beyond the tabulated cells is not decided; Score.__str__'s "
               "integer rounding when a total is divided among unit tests is outside the statement")
