"""C03 - the final score follows the documented valence/trigger arithmetic."""
import ast
import itertools
import re

from ..astutil import dotted, calls, call_name, body_walk, walk_local, method_calls
from ..loader import AnalysisError, norm
from ..symbols import Symbols
from .resolver_model import Model, score_value

ASSERT_CMDS = 'pedal.assertions.commands'


def r1_r4_score_table(ctx, sym, model):
    ctx.rule('R1', "decision table of merge + Score.parse + add_to_current + combine_scores + finalize by abstract "
                   "interpretation: over valence {-1,0,1,None} x triggered x score form {'+N','N','N%','-N','-N%',"
                   "number} x unscored x muted x suppressed, next to a scoreless anchor that prevents the default-"
                   "correct result, the resolved score equals the documented sum rounded to two decimals; ordered "
                   "pairs and triples check summation")
    anchor = dict(category='instructor', label='anchor', triggered=True)
    scores = ['+5', '5', '10%', '+10%', '-5', '-10%', 0.25, 2, '0.125', '+.5']
    n = 0
    bad = []
    raised = []
    for val, trig, sc, unsc, muted, sup in itertools.product((-1, 0, 1, None), (True, False), scores,
                                                             (None, True), (None, True), (False, True)):
        cfg = dict(category='specification', label='S', triggered=trig, valence=val, score=sc, unscored=unsc,
                   muted=muted)
        s = {'specification': {True: [{}]}} if sup else {}
        for seq in ([anchor, cfg], [cfg, anchor]):
            n += 1
            got, want = model.resolve(seq, s, {}), model.oracle(seq, s, {})
            if isinstance(got, tuple):
                raised.append((cfg, got))
                continue
            if got['score'] != want['score']:
                bad.append((cfg, sup, got['score'], want['score'], got['scores']))
    # every way of suppressing the scored feedback (and combinations with unrelated entries of the same category)
    sup_variants = [
        ({'specification': {'s': [{}]}}, {}),                                   # category + label
        ({}, {'S': [{}]}),                                                      # label only
        ({'specification': {'other': [{}]}}, {'S': [{}]}),                      # label only, category has other entries
        ({'specification': {'s': [{'k': 'no-match'}]}}, {'S': [{}]}),           # label only, category entry not matching
        ({'specification': {'other': [{}]}}, {}),                               # unrelated entry only: not suppressed
        ({}, {'S': [{'k': 'no-match'}]}),                                       # label only, fields not matching
        ({}, {'S': [{'k': 1}]}),                                                # label + matching fields
    ]
    for val, trig, sc in itertools.product((-1, 1, None), (True, False), ('+5', 0.25, '10%')):
        cfg = dict(category='specification', label='S', triggered=trig, valence=val, score=sc, fields={'k': 1})
        for s_, sl_ in sup_variants:
            n += 1
            seq = [anchor, cfg]
            got, want = model.resolve(seq, s_, sl_), model.oracle(seq, s_, sl_)
            if isinstance(got, tuple):
                raised.append((cfg, got))
            elif got['score'] != want['score']:
                bad.append((cfg, (s_, sl_), got['score'], want['score'], got['scores']))
    # default-correct result scores 1
    for cfg in (dict(category='specification', label='S', triggered=False, valence=-1, score='+5'),
                dict(category='instructor', label='P', triggered=True, valence=1, score='+5', muted=True)):
        n += 1
        got, want = model.resolve([cfg]), model.oracle([cfg])
        if isinstance(got, tuple) or got['score'] != want['score']:
            bad.append((cfg, False, got if isinstance(got, tuple) else got['score'], want['score'], None))
    # sums and rounding
    pool = [dict(category='specification', label='a', triggered=False, valence=-1, score='10%'),
            dict(category='specification', label='b', triggered=True, valence=-1, score='10%'),
            dict(category='instructor', label='c', triggered=True, valence=1, score='+0.125', muted=True),
            dict(category='instructor', label='d', triggered=True, valence=1, score=0.001, muted=True),
            dict(category='specification', label='e', triggered=False, valence=-1, score='-5%'),
            dict(category='instructor', label='f', triggered=True, valence=0, score='33%', muted=True)]
    for k in (2, 3):
        for seq in itertools.product(pool, repeat=k):
            n += 1
            seq = [anchor] + list(seq)
            got, want = model.resolve(seq), model.oracle(seq)
            if isinstance(got, tuple):
                raised.append((seq[-1], got))
            elif got['score'] != want['score']:
                bad.append(([c['label'] for c in seq], False, got['score'], want['score'], got['scores']))
    ctx.floor('R1', 'score table cells', n, 1500)
    if bad:
        groups = {}
        for b in bad:
            cfg = b[0]
            k = 'sum' if isinstance(cfg, list) else 'valence=%r,triggered=%r,score=%r' % (
                cfg.get('valence'), cfg['triggered'], cfg.get('score'))
            groups.setdefault(k, []).append(b)
        for k, items in sorted(groups.items())[:12]:
            ex = items[0]
            ctx.fail('R1', 'score[%s]' % k, model.fmod, model.merge_fn,
                     "%d cell(s) with a wrong score; e.g. %r (suppressed=%r) resolves to score %r via %r, the "
                     "documented arithmetic gives %r" % (len(items), ex[0], ex[1], ex[2], ex[4], ex[3]),
                     "a report with that feedback next to one shown feedback without a score",
                     function='FinalFeedback.merge / Score.add_to_current / combine_scores',
                     construct='score arithmetic')
    else:
        ctx.ok('R1', 'score-table', sample={'cells': n, 'mismatches': 0})
    if raised:
        ex = raised[0]
        ctx.fail('R1', 'score:raises', model.fmod, model.merge_fn,
                 "score handling raises %r for %r" % (ex[1], ex[0]), "such a feedback makes resolve() raise",
                 function='FinalFeedback.merge')
    ctx.info("score table: %d cells, %d mismatches, %d raising" % (n, len(bad), len(raised)))


def r3_parse(ctx, sym, model):
    ctx.rule('R3', "SCORE_PATTERN (regex AST): five groups in the order inversions, operator, digits, %, rest; "
                   "Score.parse tabulated by abstract interpretation over score strings: value, N% = N/100, "
                   "inversion parity, operator")
    import re._parser as sre_parse
    parsed = sre_parse.parse(model.pattern_text)
    groups = [(op, av) for op, av in parsed if str(op) == 'SUBPATTERN' or str(op) == 'MAX_REPEAT'
              and str(av[2][0][0]) == 'SUBPATTERN']
    ctx.check(model.pattern.groups == 5, 'R3', 'SCORE_PATTERN:groups', model.smod,
              model.smod.top_assign('SCORE_PATTERN'),
              "SCORE_PATTERN has %d groups, Score.parse reads 5" % model.pattern.groups,
              "every score string is parsed wrongly", construct=model.pattern_text)
    fd = model.new_fd(model.smod)
    cases = {'+5': (False, '+', 5.0), '5': (False, None, 5.0), '10%': (False, None, 0.1), '-5': (False, '-', 5.0),
             '-10%': (False, '-', 0.1), '!+5': (True, '+', 5.0), '!!+5': (False, '+', 5.0), '!!!5%': (True, None, 0.05),
             '0.25': (False, None, 0.25), '*2': (False, '*', 2.0), '/4': (False, '/', 4.0), '100%': (False, None, 1.0)}
    from ..fdeval import Raised
    for text, (inv, op, val) in cases.items():
        try:
            o = fd.calls['Score.parse'](text)
            got = (o.attrs.get('invert'), o.attrs.get('operator'), o.attrs.get('value'))
        except Raised as r:
            got = ('raised', r.kind, r.detail)
        ctx.check(got == (inv, op, val), 'R3', 'Score.parse(%r)' % text, model.smod, model.score_parse,
                  "Score.parse(%r) gives (invert, operator, value) = %r, documented meaning %r" % (
                      text, got, (inv, op, val)),
                  "a feedback with score=%r" % text, construct='Score.parse', sample={'text': text, 'parsed': got})
    # writer/reader agreement: numeric scores are rendered with an f-string and re-parsed
    for x in (0.5, 0.25, 5, 1.0, 100, 0.0001, 0.00001, 2.5e-07):
        text = "%s" % (x,)
        m = model.pattern.match(text)
        if model.pattern.groups != 5:
            continue   # reported above
        ok = m is not None and m.group(5) == '' and float(m.group(3)) == float(x) and not m.group(2)
        ctx.check(ok, 'R3', 'numeric-score-roundtrip(%r)' % (x,), model.fmod, model.merge_fn,
                  "a numeric score %r is rendered as %r by the f-string in merge and re-parsed by SCORE_PATTERN as "
                  "value %r with leftovers %r" % (x, text, m.group(3) if m else None, m.group(5) if m else None),
                  "give_partial(%r): the points awarded are %s instead of %r" % (
                      x, m.group(3) if m else '?', x), construct='f"{inversion}{partial}" vs SCORE_PATTERN')


def r5_unit_test_split(ctx, sym):
    ctx.rule('R5', "partial_credit_logic returns one score per case on every path that builds a list (comprehension "
                   "over `cases`), so each_score[test_index] is in range; unit_test assigns the group's score from "
                   "`score` unchanged when partial_credit is False")
    mod = ctx.repo.module(ASSERT_CMDS)
    fn = mod.func('partial_credit_logic')
    ctx.analysed_function(mod, fn)
    cases_p = fn.args.args[0].arg
    pc = fn.args.args[2].arg
    rets = [n for n in body_walk(fn) if isinstance(n, ast.Return)]
    ctx.floor('R5', 'return paths', len(rets), 4)
    for r in rets:
        v = r.value
        if isinstance(v, ast.ListComp):
            ok = len(v.generators) == 1 and norm(v.generators[0].iter) == cases_p and not v.generators[0].ifs
            ctx.check(ok, 'R5', 'partial_credit_logic:' + norm(v)[:50], mod, r,
                      "the per-case score list is not built by iterating over all cases",
                      "unit_test(..., partial_credit=...) raises IndexError or leaves a case unscored")
        elif isinstance(v, ast.Name) and v.id == pc:
            ctx.ok('R5', 'partial_credit_logic:instructor-list', nontrivial=False)
        else:
            ctx.fail('R5', 'partial_credit_logic:' + norm(v)[:50], mod, r,
                     "return value is neither a per-case list nor the instructor's list", "unit_test scoring")
    # division by the number of cases
    divs = [n for n in ast.walk(fn) if isinstance(n, ast.BinOp) and isinstance(n.op, ast.Div)]
    ok = len(divs) == 1 and norm(divs[0].right) == 'len(%s)' % cases_p and norm(divs[0].left) == 'Score.parse(score)'
    ctx.check(ok, 'R5', 'partial_credit_logic:split', mod, divs[0] if divs else fn,
              "the total score is not divided by the number of cases", "partial credit does not add up to the total")
    ut = mod.func('unit_test')
    ctx.analysed_function(mod, ut)
    uses = [n for n in ast.walk(ut) if isinstance(n, ast.Subscript) and norm(n.value) == 'each_score']
    loops = [n for n in body_walk(ut) if isinstance(n, ast.For) and norm(n.iter) == 'enumerate(tests)']
    ok = bool(uses) and len(loops) == 1 and all(norm(u.slice) == norm(loops[0].target.elts[0]) for u in uses)
    src = [n for n in body_walk(ut) if isinstance(n, ast.Assign) and norm(n.targets[0]) == 'each_score']
    ok = ok and len(src) == 1 and norm(src[0].value) == 'partial_credit_logic(tests, score, partial_credit)'
    ctx.check(ok, 'R5', 'unit_test:each_score-index', mod, ut,
              "each_score is not indexed by the enumeration index of the same `tests` it was built from",
              "unit_test with several cases gives a case another case's score", construct='each_score[test_index]')
    ifs = [n for n in body_walk(ut) if isinstance(n, ast.If) and norm(n.test) == 'partial_credit is False']
    ok = len(ifs) == 1 and len(ifs[0].body) == 1 and norm(ifs[0].body[0]) == 'group_result.score = score'
    ctx.check(ok, 'R5', 'unit_test:all-or-nothing', mod, ifs[0] if ifs else ut,
              "with partial_credit=False the group's score is not `score` unchanged",
              "unit_test(score='10%') awards something else", construct='group_result.score = score')


def run(ctx):
    sym = Symbols(ctx.repo)
    model = Model(ctx, sym)
    r1_r4_score_table(ctx, sym, model)
    r3_parse(ctx, sym, model)
    r5_unit_test_split(ctx, sym)
    # the merge/finalize table above speaks about resolve() only if resolve() feeds every feedback through it
    from .c01 import r3_r5_resolvers
    r3_r5_resolvers(ctx, sym, ids=('R6', 'R7'), writers=False)
    ctx.assume("floating-point rounding of particular sums beyond the tabulated cells is not decided; Score.__str__'s "
               "integer rounding when a total is divided among unit tests is outside the statement")
