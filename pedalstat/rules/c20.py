"""C20 - each feedback call is recorded once, truthfully, and rendered from its fields."""
import ast
import itertools

from ..astutil import dotted, calls, call_name, body_walk, walk_local, is_self_attr, kw
from ..cfg import CFG, EXCEPTION_DOWN
from ..fdeval import FD, Obj, Raised, Inconclusive, UNKNOWN, NO_RETURN
from ..loader import AnalysisError, norm, enclosing_function
from ..symbols import Symbols, ClassInfo
from ..tables import literal

FEEDBACK = 'pedal.core.feedback'
REPORT = 'pedal.core.report'
FORMATTING = 'pedal.core.formatting'


def r1_ownership(ctx, sym):
    ctx.rule('R1', "report.add_feedback / add_ignored_feedback are called only from Feedback._handle_condition "
                   "(whole-program call-site sweep)")
    n = 0
    for m in ctx.repo.modules.values():
        for node in ast.walk(m.tree):
            if isinstance(node, ast.Call) and isinstance(node.func, ast.Attribute) and \
                    node.func.attr in ('add_feedback', 'add_ignored_feedback'):
                n += 1
                f = enclosing_function(node)
                q = getattr(f, '_qualname', '<module>')
                if m.name == FEEDBACK and q.startswith('Feedback.') and q.count('.') == 1:
                    # a private helper with a single caller is attributed to that caller (extracted helpers)
                    from ..astutil import root_caller
                    q = 'Feedback.' + root_caller(m.cls('Feedback'), q.split('.', 1)[1],
                                                  anchors=('_handle_condition', '__init__'))
                ctx.check(m.name == FEEDBACK and q == 'Feedback._handle_condition', 'R1',
                          'caller:%s@%s:%s' % (node.func.attr, m.name.split('.', 1)[-1], q), m, node,
                          "%s is called from %s; only Feedback._handle_condition may record a feedback" % (
                              node.func.attr, q),
                          "a feedback object is attached to the report twice (or to the wrong list)")
    ctx.floor('R1', 'recording call sites', n, 1)


def r2_r3_handle_condition(ctx, sym):
    ctx.rule('R2', "decision table of Feedback._handle_condition by abstract interpretation over condition outcome "
                   "{true, false, raises} x message/else_message/justification rendering {ok, raises} x report "
                   "{present, None}: the object is recorded exactly once, in the triggered list iff the condition "
                   "held; on an exception it is recorded untriggered with _met_condition False and status ERROR, and "
                   "the same exception reaches the caller after the recording")
    ctx.rule('R3', "__bool__ returns bool(_met_condition); _met_condition is written only by Feedback.__init__ and "
                   "Feedback._handle_condition (whole-program sweep)")
    mod = ctx.repo.module(FEEDBACK)
    fn = mod.func('Feedback._handle_condition')
    ctx.analysed_function(mod, fn)
    status = sym.find_class('pedal.core.feedback_category', 'FeedbackStatus')
    consts = {k: sym.const(status.module, v) for k, v in status.attrs.items() if isinstance(v, ast.Constant)}
    ctx.require({'ACTIVE', 'INACTIVE', 'ERROR'} <= set(consts), "FeedbackStatus constants missing")

    def resolver(name):
        try:
            return sym.const(mod, ast.parse(name, mode='eval').body)
        except (KeyError, SyntaxError):
            raise KeyError(name)
    outcomes = ['ok', 'raises']
    n = 0
    for cond, msg, elsemsg, just, has_report in itertools.product(
            ('true', 'truthy', 'false', 'falsy', 'raises'), outcomes, outcomes, outcomes, (True, False)):
        n += 1
        log = []
        fd = FD(resolver=resolver)
        report = Obj('report')
        report.attrs['method:add_feedback'] = lambda f: log.append(('add_feedback', dict(f.attrs)))
        report.attrs['method:add_ignored_feedback'] = lambda f: log.append(('add_ignored_feedback', dict(f.attrs)))
        me = Obj('feedback', report=report if has_report else None, _stored_args=(), _stored_kwargs={},
                 message=None, else_message=None, justification=None, unused_message=None, __closed__=True)

        def boom(kind):
            def f(*a, **k):
                raise Raised(kind, payload=Obj('exception', exc_kind=kind))
            return f
        cv = {'true': True, 'truthy': 'yes', 'false': False, 'falsy': 0}
        me.attrs['method:condition'] = boom('CondError') if cond == 'raises' else (lambda *a, **k: cv[cond])
        me.attrs['method:_get_message'] = boom('MsgError') if msg == 'raises' else (lambda: 'M')
        me.attrs['method:_get_else_message'] = boom('ElseError') if elsemsg == 'raises' else (lambda: 'E')
        me.attrs['method:_get_justification'] = boom('JustError') if just == 'raises' else (lambda met: 'J')
        raised = None
        try:
            fd.call_function(fn, [], bound_self=me)
        except Raised as r:
            raised = r
        except Inconclusive as e:
            raise AnalysisError("C20 R2: _handle_condition outside the decidable fragment: %s" % e)
        # oracle
        held = cond in ('true', 'truthy')
        err = None
        if cond == 'raises':
            err = 'CondError'
        elif just == 'raises':
            err = 'JustError'
        elif held and msg == 'raises':
            err = 'MsgError'
        elif not held and elsemsg == 'raises':
            err = 'ElseError'
        want_list = None
        if has_report:
            want_list = 'add_feedback' if (held and err is None) else 'add_ignored_feedback'
        key = "cond=%s,msg=%s,else=%s,just=%s,report=%s" % (cond, msg, elsemsg, just, has_report)
        got_lists = [l[0] for l in log]
        ok = got_lists == ([want_list] if want_list else [])
        why = "recorded via %s, expected %s" % (got_lists, [want_list] if want_list else [])
        if ok:
            if err is None:
                ok = raised is None
                why = "raises %s although nothing failed" % (raised.kind if raised else None)
            else:
                ok = raised is not None and raised.kind == err
                why = "the %s raised while evaluating the feedback does not reach the caller (got %s)" % (
                    err, raised.kind if raised else 'no exception')
        if ok and log:
            snap = log[0][1]
            if err is not None:
                ok = snap.get('_met_condition') is False and snap.get('_status') == consts['ERROR']
                why = "at recording time _met_condition=%r _status=%r, expected False/%r" % (
                    snap.get('_met_condition'), snap.get('_status'), consts['ERROR'])
            else:
                ok = bool(snap.get('_met_condition')) == held and \
                    snap.get('_status') == (consts['ACTIVE'] if held else consts['INACTIVE'])
                why = "at recording time _met_condition=%r _status=%r for a condition that %s" % (
                    snap.get('_met_condition'), snap.get('_status'), 'held' if held else 'did not hold')
        if ok:
            final_met = me.attrs.get('_met_condition')
            ok = bool(final_met) == (held and err is None)
            why = "truth value afterwards is %r" % (final_met,)
        ctx.check(ok, 'R2', '_handle_condition[%s]' % key, mod, fn, why,
                  "a feedback whose condition %s and whose message rendering %s" % (
                      {'raises': 'raises'}.get(cond, 'returns ' + cond), 'raises' if 'raises' in (msg, elsemsg, just)
                      else 'succeeds'),
                  construct='_handle_condition', sample={'scenario': key, 'recorded': got_lists,
                                                         'raised': raised.kind if raised else None})
    ctx.floor('R2', '_handle_condition cells', n, 60)
    # R3
    bfn = mod.func('Feedback.__bool__')
    ctx.analysed_function(mod, bfn)
    from .. import symexec as _sx
    for met in (True, False, 1, 0, 'yes', '', None, [0], []):
        me_b = _sx.self_obj(mod, 'Feedback', _met_condition=met)
        got_b, raised_b = _sx.run(_sx.new_fd(sym, mod), bfn, [], bound_self=me_b, what='Feedback.__bool__')
        ctx.check(raised_b is None and got_b is bool(met), 'R3', 'Feedback.__bool__[%r]' % (met,), mod, bfn,
                  "a feedback whose recorded outcome is %r has truth value %r%s; expected %r" % (
                      met, got_b, '' if raised_b is None else ' (raises %s)' % raised_b.kind, bool(met)),
                  "truth value differs from the recorded outcome")
    n = 0
    for m in ctx.repo.modules.values():
        for node in ast.walk(m.tree):
            if isinstance(node, (ast.Assign, ast.AugAssign, ast.AnnAssign)):
                tg = node.targets if isinstance(node, ast.Assign) else [node.target]
                for t in tg:
                    if isinstance(t, ast.Attribute) and t.attr == '_met_condition':
                        n += 1
                        q = getattr(enclosing_function(node), '_qualname', '<module>')
                        if m.name == FEEDBACK and q.startswith('Feedback.') and q.count('.') == 1:
                            # a private helper extracted from the two owners is attributed to the owner that calls it
                            from ..astutil import root_caller
                            q = 'Feedback.' + root_caller(m.cls('Feedback'), q.split('.', 1)[1],
                                                          anchors=('__init__', '_handle_condition'))
                        ctx.check(m.name == FEEDBACK and q in ('Feedback.__init__', 'Feedback._handle_condition'),
                                  'R3', 'writer:_met_condition@%s:%s' % (m.name.split('.', 1)[-1], q), m, node,
                                  "_met_condition is written outside Feedback.__init__/_handle_condition",
                                  "truth value no longer equals the recorded outcome")
            if isinstance(node, ast.Call) and call_name(node) == 'setattr' and len(node.args) >= 2 and \
                    isinstance(node.args[1], ast.Constant) and node.args[1].value == '_met_condition':
                ctx.fail('R3', 'writer:setattr@' + m.name, m, node, "_met_condition set through setattr",
                         "truth value no longer equals the recorded outcome")
    ctx.floor('R3', 'writers of _met_condition', n, 1)


def super_init_call(c):
    f = c.func
    if isinstance(f, ast.Attribute) and f.attr == '__init__':
        if isinstance(f.value, ast.Call) and dotted(f.value.func) == 'super':
            return True
        if isinstance(f.value, (ast.Name, ast.Attribute)) and c.args and norm(c.args[0]) == 'self':
            return True
    return False


def r4_subclasses(ctx, sym):
    ctx.rule('R4', "class table over every Feedback subclass: an overriding __init__ reaches super().__init__ (or an "
                   "explicit base __init__) on every normal path (CFG); nobody overrides _handle_condition or "
                   "__bool__; classes constructed with delay_condition=True call _handle_condition() exactly once on "
                   "every normal path of __exit__")
    base = sym.find_class(FEEDBACK, 'Feedback')
    subs = sym.subclasses(base, strict=True)
    ctx.floor('R4', 'Feedback subclasses', len(subs), 150)
    n_init = 0
    delayed = []
    for ci in sorted(subs, key=lambda c: (c.module.name, c.qualname)):
        tag = '%s:%s' % (ci.module.name.split('.', 1)[-1], ci.qualname)
        for forbidden in ('_handle_condition', '__bool__'):
            if forbidden in ci.methods:
                ctx.fail('R4', tag + ':overrides:' + forbidden, ci.module, ci.methods[forbidden],
                         "feedback class overrides %s" % forbidden,
                         "this class can record itself differently from what its truth value says")
        init = ci.methods.get('__init__')
        if init is None:
            ctx.ok('R4', tag + ':inherits-init', nontrivial=False)
            continue
        n_init += 1
        ctx.analysed_function(ci.module, init)
        g = CFG(init)
        sup = g.nodes_calling(super_init_call)
        ok = bool(sup) and g.exit.id not in g.reachable([g.entry], sup)
        ctx.check(ok, 'R4', tag + '.__init__:reaches-super', ci.module, init,
                  "a normal path through __init__ returns without calling the base __init__" if sup else
                  "__init__ never calls the base __init__",
                  "constructing this feedback on that path records nothing: the call is silently lost")
        twice = any(b.id in g.successors_avoiding(a, []) for a in sup for b in sup)
        ctx.check(not twice, 'R4', tag + '.__init__:super-once', ci.module, init,
                  "the base __init__ can run twice", "the feedback is recorded twice")
        for c in calls(init):
            if super_init_call(c) and isinstance(kw(c, 'delay_condition'), ast.Constant) and \
                    kw(c, 'delay_condition').value is True:
                delayed.append(ci)
    ctx.floor('R4', 'overriding __init__ methods', n_init, 30)
    ctx.floor('R4', 'delayed-condition classes', len(delayed), 2)
    for ci in delayed:
        for sub in sym.subclasses(ci):
            m = sym.method(sub, '__exit__')
            tag = '%s:%s' % (sub.module.name.split('.', 1)[-1], sub.qualname)
            if m is None:
                ctx.fail('R4', tag + ':no-__exit__', sub.module, sub.node,
                         "delayed-condition class has no __exit__ to finalise the condition",
                         "the group is never recorded")
                continue
            owner, fn = m
            g = CFG(fn)
            hc = g.nodes_calling(lambda c: isinstance(c.func, ast.Attribute) and c.func.attr == '_handle_condition'
                                 and norm(c.func.value) == 'self')
            ok = len(hc) >= 1 and g.exit.id not in g.reachable([g.entry], hc) and \
                not any(b.id in g.successors_avoiding(a, []) for a in hc for b in hc)
            ctx.check(ok, 'R4', tag + '.__exit__:handles-once', owner.module, fn,
                      "__exit__ does not call self._handle_condition() exactly once on every normal path",
                      "a `with %s(...)` block records the group zero or two times" % sub.name)


CONSTRUCTOR_DOMAIN = {
    # attribute: (class default in the model, explicit values a caller may pass - falsy ones included)
    'valence': (-1, [0, 1, -1]),
    'score': ('+5%', [0, 0.0, '+0', 5, '10%', '+12.5%', '-0.15', '0.75']),
    'correct': (True, [False, True]),
    'muted': (True, [False, True]),
    'unscored': (True, [False, True]),
    'kind': ('Mistake', ['Compliment', 'Instructional']),
    'priority': ('low', ['highest', 'high', 'syntax']),
    'category': ('instructor', ['runtime', 'Syntax']),
    'label': (None, ['my_label', 'MixedCase']),
    'message': ('class message', ['', 'text']),
    'title': ('class title', ['', 'Title']),
    'justification': ('class justification', ['', 'because']),
}


def constructor_rule(ctx, sym, rule, attrs):
    """Feedback.__init__ executed abstractly on an instance whose class supplies a default for the attribute: an
    explicit keyword argument - a falsy one (valence=0, score=0, correct=False, muted=False, '') included - becomes
    the attribute's value; None leaves the class default."""
    from .. import symexec
    mod = ctx.repo.module(FEEDBACK)
    init = mod.func('Feedback.__init__')
    ctx.analysed_function(mod, init)
    for attr in attrs:
        default, values = CONSTRUCTOR_DOMAIN[attr]
        for value in values + [None]:
            me = symexec.self_obj(mod, 'Feedback')
            if default is not None:
                me.attrs[attr] = default
            report = Obj('report')
            symexec.method(report, 'get_current_group', lambda: None)
            fd = symexec.new_fd(sym, mod, calls={
                'isinstance': lambda o, t: isinstance(o, t) if isinstance(t, (type, tuple)) else False,
                'Location': lambda *a, **k: Obj('Location')}, extra={'MAIN_REPORT': report})
            kwargs = {'report': report, 'delay_condition': True}
            if value is not None:
                kwargs[attr] = value
            _, raised = symexec.run(fd, init, [], kwargs, bound_self=me, what='Feedback.__init__')
            got = me.attrs.get(attr)
            if value is None:
                want = default
                ok = raised is None and (got == want if default is not None else True)
            else:
                want = value
                ok = raised is None and got == want and type(got) is type(want)
                if attr == 'score' and raised is None and not ok and isinstance(got, (str, int, float)) and \
                        not isinstance(got, bool):
                    # a score may be stored in another spelling as long as it means the same amount
                    from .resolver_model import score_value
                    try:
                        ok = abs(score_value(got) - score_value(want)) < 1e-12
                    except (ValueError, IndexError):
                        ok = False
            ctx.check(ok, rule, 'Feedback.__init__[%s=%r]' % (attr, value), mod, init,
                      "a feedback class whose default %s is %r, constructed with %s: the instance has %s = %r%s; expected "
                      "%r" % (attr, default, '%s=%r' % (attr, value) if value is not None else 'no ' + attr, attr, got,
                              '' if raised is None else ' (raises %s)' % raised.kind, want),
                      "gently('...', valence=0, score='+5%'): the explicit neutral valence is dropped because 0 is "
                      "falsy, so the feedback keeps its class's negative valence and scores the other way round")


class _Wrapped:
    """Stand-in for FeedbackFieldWrapper: renders as <field>, honours width/alignment specs, and hands item and
    attribute look-ups on to the wrapped value (what str.format needs of a field)."""

    def __init__(self, field, value):
        self.field, self.value = field, value
        self.line = 'LINE-OF-' + str(field)

    def __format__(self, spec):
        if spec == '' and isinstance(self.value, int) and not isinstance(self.value, bool) and self.field == 'width':
            return str(self.value)      # (a field used inside another field's format specification)
        if self.value == '' and isinstance(self.value, str):
            return format('', spec)     # (a field that renders to nothing)
        return format('<%s>' % self.field, spec)

    def __getitem__(self, key):
        return '<%s[%r]=%s>' % (self.field, key, self.value[key])

    def __str__(self):
        return '<%s>' % self.field


def message_rule(ctx, sym, rule):
    """_get_message / _get_else_message executed abstractly (explicit text, template, neither; templates that render
    to text, to blanks, to nothing): explicit text first, else the template formatted with
    wrap_fields(self.report.format, self.fields) - whatever it renders to -, else the class default. A triggered
    feedback therefore always has a message (shared with C02: FinalFeedback.merge takes label and category only from
    feedback whose message is not None)."""
    from .. import symexec
    mod = ctx.repo.module(FEEDBACK)
    specs = [('_get_message', 'message', 'message_template', 'DEFAULT_FEEDBACK_MESSAGE'),
             ('_get_else_message', 'else_message', 'else_message_template', 'DEFAULT_ELSE_MESSAGE')]
    for name, attr, tattr, dflt in specs:
        fn = mod.func('Feedback.' + name)
        ctx.analysed_function(mod, fn)
        templates = (None, 'T {x}', '{x}', '{blank}', '  {blank}\n', '{pair[0]} and {x}', '{text:>{width}}|',
                     '{loc.line} {table[key]}', 'about {missing} and {x}')
        for text, tmpl in itertools.product((None, 'TEXT', ''), templates):
            wraps = []
            fmt = Obj('formatter')
            fields = {'x': 1, 'blank': '', 'pair': ('first', 'second'), 'text': 't', 'width': 5,
                      'loc': _Wrapped('loc-value', None), 'table': {'key': 'cell'}, 'unused': object()}

            def wrapper(field, value, formatter=None, *a, **k):
                wraps.append((field, value, formatter))
                return _Wrapped(field, value)
            # wrap_fields itself (pedal.core.formatting) is interpreted; the wrapper class it builds is a stand-in that
            # renders as <field> and passes item and attribute look-ups on to the value
            me = symexec.self_obj(mod, 'Feedback', report=Obj('report', format=fmt), fields=fields,
                                  DEFAULT_FEEDBACK_MESSAGE='DEFAULT', DEFAULT_ELSE_MESSAGE=None,
                                  DEFAULT_JUSTIFICATION_MESSAGE='DEFAULTJ')
            me.attrs[attr] = text
            me.attrs[tattr] = tmpl
            fd = symexec.new_fd(sym, mod, calls={'FeedbackFieldWrapper': wrapper})
            got, raised = symexec.run(fd, fn, [], bound_self=me, what='Feedback.' + name)
            if text is None and tmpl is not None and '{missing}' in tmpl:
                # a template naming a field nobody supplied cannot be rendered: the error surfaces (the feedback is then
                # filed as not triggered); what must not happen is a triggered feedback without a message
                ok = (raised is not None and raised.kind in ('KeyError', 'IndexError')) or isinstance(got, str)
                ctx.check(ok, rule, '%s[%s=%r,%s=%r]' % (name, attr, text, tattr, tmpl), mod, fn,
                          "a template naming a missing field %s; expected the KeyError to surface (or some text)" % (
                              'raises %s' % raised.kind if raised is not None else 'returns %r' % (got,)),
                          "gently(message_template='{thing} is wrong') with `thing` never given: the feedback is "
                          "triggered with message None and the submission resolves as correct", construct=name)
                continue
            if text is not None:
                want = text
            elif tmpl is not None:
                want = tmpl.format(**{k: _Wrapped(k, v) for k, v in fields.items()})
            else:
                want = me.attrs[dflt]
            used = {w[0] for w in wraps}
            ok = raised is None and got == want and (text is not None or tmpl is None or (
                all(w[2] is fmt for w in wraps) and all(w[1] is fields[w[0]] for w in wraps if w[0] in fields)))
            ctx.check(ok, rule, '%s[%s=%r,%s=%r]' % (name, attr, text, tattr, tmpl), mod, fn,
                      "%s; expected %r (explicit text first, else the template rendered with every field wrapped by the "
                      "report's formatter - whatever it renders to -, else the default)" % (
                          'raises %s (%s)' % (raised.kind, raised.detail) if raised is not None else 'returns %r' % (got,),
                          want),
                      "feedback(%s=%r, %s=%r): a triggered feedback whose message is None is treated by the resolver "
                      "as if it had not fired; a template that reaches a field by index or inside a format "
                      "specification fails to render" % (attr, text, tattr, tmpl), construct=name)


def r5_message(ctx, sym):
    ctx.rule('R5', "decision tables of _get_message/_get_else_message/_get_justification (abstract interpretation): "
                   "explicit text first, else the template formatted with wrap_fields(self.report.format, "
                   "self.fields), else the default")
    mod = ctx.repo.module(FEEDBACK)

    def resolver(name):
        try:
            return sym.const(mod, ast.parse(name, mode='eval').body)
        except (KeyError, SyntaxError):
            raise KeyError(name)
    message_rule(ctx, sym, 'R5')
    fn = mod.func('Feedback._get_justification')
    ctx.analysed_function(mod, fn)
    for just, tmpl, met in itertools.product((None, 'J', ('Jmet', 'Junmet')), (None, 'T {x}', ('Tmet {x}', 'Tunmet')),
                                             (True, False)):
        fd = FD(resolver=resolver)
        fd.calls['wrap_fields'] = lambda fmt, fields, *a, **k: {'x': ('wrapped', fields)}
        fd.calls['isinstance'] = lambda o, t: isinstance(o, t)
        fd.methods['format'] = lambda recv, *a, **k: ('formatted', recv)
        me = Obj('feedback', report=Obj('report', format=Obj('formatter')), fields={'x': 1},
                 DEFAULT_JUSTIFICATION_MESSAGE='DEFAULTJ', justification=just, justification_template=tmpl)
        try:
            got = fd.call_function(fn, [met], bound_self=me)
        except (Raised, Inconclusive) as e:
            raise AnalysisError("C20 R5: _get_justification outside the decidable fragment: %s" % e)
        prefix = "The following condition was not met: "
        if just is not None:
            want = (just if met else prefix + just) if isinstance(just, str) else (just[0] if met else just[1])
        elif tmpl is not None:
            want = ('formatted', prefix + tmpl) if isinstance(tmpl, str) else ('formatted', tmpl[0] if met else tmpl[1])
        else:
            want = 'DEFAULTJ'
        # a string template is documented as the *unmet* explanation; for met conditions pedal uses it verbatim too
        ctx.check(got == want, 'R5', '_get_justification[%r,%r,%r]' % (just, tmpl, met), mod, fn,
                  "returns %r, expected %r" % (got, want), "justification=%r, template=%r" % (just, tmpl),
                  construct='_get_justification')


def r6_formatter_dispatch(ctx, sym):
    ctx.rule('R6', "every name in Formatter.available is a method of Formatter and of each Formatter subclass in "
                   "pedal; FeedbackFieldWrapper.__format__ picks the first available name the spec ends with, strips "
                   "it, and calls that method of the report's formatter on the raw value; a name that is a proper "
                   "suffix of another comes later in the list")
    mod = ctx.repo.module(FORMATTING)
    fm = sym.find_class(FORMATTING, 'Formatter')
    avail = literal(fm.attrs['available'], resolve_consts=False)
    ctx.floor('R6', 'formatter names', len(avail), 10)
    for ci in sym.subclasses(fm):
        for name in avail:
            ctx.check(sym.method(ci, name) is not None, 'R6', '%s.%s' % (ci.name, name), ci.module, ci.node,
                      "formatter %s has no method %r listed in Formatter.available" % (ci.name, name),
                      "a template using {field:%s} raises AttributeError when rendered" % name,
                      construct='available: %s' % name)
    for i, a in enumerate(avail):
        for j, b in enumerate(avail):
            if a != b and b.endswith(a):
                ctx.check(j < i, 'R6', 'suffix-order:%s<%s' % (b, a), mod, fm.attrs['available'],
                          "%r is a suffix of %r but comes first, so {x:%s} is rendered with %s()" % (a, b, b, a),
                          "a template field with spec %r" % b, construct='available order')
    wf = mod.func('FeedbackFieldWrapper.__format__')
    ctx.analysed_function(mod, wf)
    # abstract run over specs
    from ..fdeval import module_resolver
    for spec, want, names in (('name', ('fmt:name', ''), avail), ('filename', ('fmt:filename', ''), avail),
                              ('>10:line', ('fmt:line', '>10'), avail), ('', ('str', ''), avail),
                              ('>5', ('str', '>5'), avail),
                              # the report's own formatter decides which names exist (a subclass may add some)
                              ('bold', ('fmt:bold', ''), list(avail) + ['bold']),
                              ('>3:bold', ('fmt:bold', '>3'), ['bold'] + list(avail))):
        fd = FD(max_steps=100000, resolver=module_resolver(sym, mod))
        avail_ = names

        def new_formatter(tag):
            f = Obj('formatter', available=list(names), tag=tag)
            for name in avail_:
                f.attrs['method:' + name] = (lambda n: (lambda v: Obj('rendered', how='fmt:' + n, of=v, by=f)))(name)
            return f
        raw = Obj('rawvalue')

        def b_getattr(o, name, *default):
            if ('method:' + name) in o.attrs:
                return o.attrs['method:' + name]
            if name in o.attrs:
                return o.attrs[name]
            if default:
                return default[0]
            raise Raised('AttributeError', name)
        fd.calls['getattr'] = b_getattr
        fd.calls['str'] = lambda v: Obj('rendered', how='str', of=v, by=None)
        # (two formatters of one class are told apart as objects, not by their class)
        fd.calls['type'] = lambda o: ('class-of', o._name) if isinstance(o, Obj) else type(o)
        fd.functions['chomp_spec'] = mod.func('chomp_spec')
        fd.methods['__format__'] = lambda recv, s: (recv.attrs['how'], recv.attrs['of'], s, recv.attrs.get('by'))
        # the wrapper is built by its own constructor, so whatever it keeps about the value is there; the same spec is
        # rendered twice in one process, for two reports whose formatters are two instances of one class
        results = []
        for tag in ('first report', 'second report'):
            fmt = new_formatter(tag)
            me = Obj('wrapper')
            me.attrs['__classdef__'] = mod.cls('FeedbackFieldWrapper')
            try:
                winit = mod.func('FeedbackFieldWrapper.__init__')
                fd.call_function(winit, ['k', raw, fmt], bound_self=me)
                got = fd.call_function(wf, [spec], bound_self=me)
            except (Raised, Inconclusive) as e:
                # getattr(...)(...) call form
                raise AnalysisError("C20 R6: FeedbackFieldWrapper.__format__ outside the decidable fragment: %s" % e)
            results.append((got, fmt))
        got = results[0][0]
        ok = isinstance(got, tuple) and got[0] == want[0] and got[1] is raw and got[2] == want[1]
        ctx.check(ok, 'R6', '__format__[%r]' % spec, mod, wf,
                  "spec %r renders as %r, expected formatter step %r on the raw value with remaining spec %r" % (
                      spec, got[:3] if isinstance(got, tuple) else got, want[0], want[1]),
                  "a template field {x:%s}" % spec, construct='FeedbackFieldWrapper.__format__')
        got2, fmt2 = results[1]
        ok2 = isinstance(got2, tuple) and got2[:3] == got[:3] and (got2[3] is fmt2 or want[0] == 'str')
        ctx.check(ok2, 'R6', '__format__[%r]:uses-the-report-formatter' % spec, mod, wf,
                  "the same spec %r rendered for a second report is rendered by %s" % (
                      spec, 'the first report\'s formatter object' if isinstance(got2, tuple) and got2[3] is results[0][1]
                      else repr(got2)),
                  "TerminalFormatter(path_mask=...) with different masks in two TerminalEnvironments: the second "
                  "report's file names are rendered with the first mask", construct='FeedbackFieldWrapper.__format__')


def r12_wrapper_forwards(ctx, sym):
    ctx.rule('R12', "str.format reaches `{field.attr}` and `{field[key]}` through FeedbackFieldWrapper.__getattr__ / "
                    "__getitem__: executed abstractly on a wrapped value, they answer with the value's own attribute "
                    "or item - whatever its name (`{expected.__name__}`, `{point._fields}`, `{location.line}`) - wrapped "
                    "again under the same field name and formatter")
    from .. import symexec
    mod = ctx.repo.module(FORMATTING)
    init = mod.func('FeedbackFieldWrapper.__init__')
    for meth, names in (('__getattr__', ('line', '__name__', '_fields', '__doc__x')), ('__getitem__', (0, 'key'))):
        fn = mod.func('FeedbackFieldWrapper.' + meth)
        ctx.analysed_function(mod, fn)
        for name in names:
            fmt = Obj('formatter', available=[])
            inner = Obj('the-attribute-value')
            raw = Obj('raw-field-value', __closed__=True)
            if meth == '__getattr__':
                raw.attrs[name] = inner
            else:
                raw.attrs['method:__getitem__'] = lambda k, _n=name: inner if k == _n else (_ for _ in ()).throw(
                    Raised('KeyError', repr(k)))
            me = symexec.self_obj(mod, 'FeedbackFieldWrapper')
            fd = symexec.new_fd(sym, mod)
            _, raised0 = symexec.run(fd, init, ['expected', raw, fmt], bound_self=me, what='FeedbackFieldWrapper.__init__')
            got, raised = symexec.run(fd, fn, [name], bound_self=me, what='FeedbackFieldWrapper.' + meth)
            ok = raised0 is None and raised is None and isinstance(got, Obj) and got.attrs.get('value') is inner and \
                got.attrs.get('formatter') is fmt and got.attrs.get('key') == 'expected'
            shown = '{expected.%s}' % name if meth == '__getattr__' else '{expected[%s]}' % name
            ctx.check(ok, 'R12', 'FeedbackFieldWrapper.%s[%r]' % (meth, name), mod, fn,
                      "a template reading %s gets %s instead of the value's own %s wrapped under the same field and "
                      "formatter" % (shown, 'an exception (%s)' % raised.kind if raised is not None else
                                     (got.attrs if isinstance(got, Obj) else got),
                                     'attribute' if meth == '__getattr__' else 'item'),
                      "assert-style feedback with message_template='Expected a {expected.__name__}': rendering raises "
                      "AttributeError, the feedback is filed as not triggered and the submission resolves as correct",
                      construct=meth)


def r11_initialised_once(ctx, sym):
    ctx.rule('R11', "Feedback.__init__ evaluates the condition and files the object in the report; a constructor of a "
                    "Feedback subclass therefore reaches it at most once: no __init__ in pedal calls "
                    "super().__init__ (or a base class's __init__) from an except handler of a try whose body already "
                    "made that call - a retry files the same object a second time, in the other list")
    base = sym.find_class(FEEDBACK, 'Feedback')
    n = 0

    def is_base_init(c):
        if not (isinstance(c, ast.Call) and isinstance(c.func, ast.Attribute) and c.func.attr == '__init__'):
            return False
        v = c.func.value
        return (isinstance(v, ast.Call) and isinstance(v.func, ast.Name) and v.func.id == 'super') or \
            isinstance(v, (ast.Name, ast.Attribute))
    for ci in sym.subclasses(base):
        init = ci.methods.get('__init__')
        if init is None:
            continue
        n += 1
        for t in ast.walk(init):
            if not isinstance(t, ast.Try):
                continue
            in_body = any(is_base_init(c) for st in t.body for c in ast.walk(st))
            if not in_body:
                continue
            for h in t.handlers:
                again = [c for st in h.body for c in ast.walk(st) if is_base_init(c)]
                ctx.check(not again, 'R11', '%s.__init__:initialised-once' % ci.name, ci.module, again[0] if again else h,
                          "%s.__init__ calls the base constructor again in an except handler after the first call "
                          "failed: the first call has already filed the object as not triggered (and re-raised), the "
                          "second files it as triggered" % ci.name,
                          "runtime_error.override(message_template='{nope}'); a student ZeroDivisionError: the "
                          "feedback object sits in both report.feedback and report.ignored_feedback")
    ctx.floor('R11', 'Feedback subclasses with their own __init__', n, 10)
    ctx.ok('R11', 'sweep', sample={'constructors': n})


def r7_overrides(ctx, sym):
    ctx.rule('R7', "Feedback.override / _restore_overrides / Report.override_feedback / clear_overridden_feedback, "
                   "executed abstractly on a model class hierarchy (base class, subclass inheriting the attribute) "
                   "for every short sequence of override calls followed by clear: afterwards every class attribute "
                   "reads as it did before the first override, nothing stays registered, and Report.clear() performs "
                   "the restoration")
    from ..fdeval import ClassObj, module_resolver
    from .. import symexec
    mod = ctx.repo.module(FEEDBACK)
    rmod = ctx.repo.module(REPORT)
    ov = mod.func('Feedback.override')
    ro = mod.func('Feedback._restore_overrides')
    cof = rmod.func('Report.clear_overridden_feedback')
    of = rmod.func('Report.override_feedback')
    for m_, f_ in ((mod, ov), (mod, ro), (rmod, cof), (rmod, of)):
        ctx.analysed_function(m_, f_)
    # class-level attributes of Feedback that override touches (e.g. `_override_backups = None`)
    fb_ci = sym.find_class(FEEDBACK, 'Feedback')
    base_own = {}
    for name, expr in fb_ci.attrs.items():
        if 'override' in name or 'backup' in name:
            try:
                base_own[name] = sym.const(mod, expr, scope=fb_ci)
            except KeyError:
                base_own[name] = None

    def scenario(steps):
        root = ClassObj('Feedback', **dict(base_own))
        root.own['classmethod:override'] = ov
        root.own['classmethod:_restore_overrides'] = ro
        base = ClassObj('FeedbackResponse', bases=[root], title='base title', message='base message')
        sub = ClassObj('gently', bases=[base])
        other = ClassObj('explain', bases=[base], title='explain title')
        root.own.setdefault('title', None)
        root.own.setdefault('message', None)
        # (a second, distinct class with the same __name__ as `sub`: pedal ships such pairs, e.g. the two
        # indentation_error classes of the source and sandbox tools)
        twin = ClassObj('gently', bases=[base], title='twin title')
        classes = {'base': base, 'sub': sub, 'other': other, 'root': root, 'twin': twin}
        before = {k: (c.attrs['title'], c.attrs['message']) for k, c in classes.items()}
        registry = symexec.init_literals(rmod, 'Report').get('overridden_feedbacks', set())
        report = symexec.self_obj(rmod, 'Report', overridden_feedbacks=type(registry)())
        fd = symexec.new_fd(sym, mod)
        fd.calls['vars'] = lambda c: c.own if isinstance(c, ClassObj) else {}

        def b_getattr(o, name, *default):
            if name in o.attrs:
                return o.attrs[name]
            if default:
                return default[0]
            raise Raised('AttributeError', name)

        def b_setattr(o, name, value):
            o.attrs[name] = value
        def b_delattr(o, name):
            if isinstance(o, ClassObj):
                if name not in o.own:
                    raise Raised('AttributeError', name)
                del o.own[name]
            else:
                o.attrs.pop(name)
        fd.calls['getattr'] = b_getattr
        fd.calls['setattr'] = b_setattr
        fd.calls['delattr'] = b_delattr
        fd.calls['hasattr'] = lambda o, name: name in o.attrs
        try:
            for who, fields in steps:
                try:
                    fd.call_function(ov, [], dict(fields, report=report), bound_self=classes[who])
                except Raised as e:
                    # a misspelled field name is the instructor's error (AttributeError is the documented
                    # outcome); what was overridden before it must still be restored by clear()
                    if not (e.kind == 'AttributeError' and any(f.startswith('no_such') for f in fields)):
                        raise
            held = report.attrs['overridden_feedbacks']
            registered = set(held.values()) if isinstance(held, dict) else set(held)
            fd.call_function(cof, [], bound_self=report)
        except Raised as e:
            return 'raises %s (%s)' % (e.kind, e.detail), before, None, None
        except Inconclusive as e:
            raise AnalysisError("C20 R7: override machinery outside the decidable fragment: %s" % e)
        after = {k: (c.attrs['title'], c.attrs['message']) for k, c in classes.items()}
        return after, before, registered, report

    sequences = [
        [('base', {'title': 'A'})],
        [('sub', {'title': 'B'})],
        [('base', {'title': 'A'}), ('sub', {'title': 'B'})],
        [('sub', {'title': 'B'}), ('base', {'title': 'A'})],
        [('base', {'title': 'A'}), ('base', {'title': 'A2'})],
        [('sub', {'title': 'B'}), ('other', {'title': 'C', 'message': 'M'})],
        [('base', {'title': 'A', 'message': 'M'}), ('other', {'message': 'M2'}), ('sub', {'message': 'M3'})],
        [('root', {'title': 'R'}), ('sub', {'title': 'B'})],
        # a call that fails half-way (unknown field after a known one)
        [('sub', {'title': 'B', 'no_such_field': 1})],
        [('base', {'title': 'A'}), ('other', {'message': 'M', 'no_such_field': 1})],
        # the same field overridden twice in one grading (course-wide wording, then assignment wording)
        [('sub', {'title': 'B'}), ('sub', {'title': 'B2'})],
        [('sub', {'message': 'M'}), ('sub', {'message': 'M2', 'title': 'T'}), ('sub', {'title': 'T2'})],
        [('other', {'title': 'C'}), ('other', {'title': 'C2'}), ('other', {'message': 'M'}), ('other', {'message': 'M2'})],
        [('sub', {'title': 'B'}), ('base', {'title': 'A'}), ('sub', {'title': 'B2'}), ('base', {'title': 'A2'})],
        # two distinct classes that share a __name__
        [('sub', {'title': 'B'}), ('twin', {'title': 'B2'})],
        [('twin', {'message': 'M'}), ('sub', {'message': 'M2'}), ('twin', {'title': 'T'})],
    ]
    for steps in sequences:
        tag = ';'.join('%s.override(%s)' % (w, ','.join('%s=%r' % kv for kv in f.items())) for w, f in steps)
        after, before, registered, report = scenario(steps)
        if isinstance(after, str):
            ctx.fail('R7', 'override:' + tag, mod, ov, "the sequence %s; clear() %s" % (tag, after),
                     "FeedbackResponse.override(title='a'); gently.override(title='b'); clear_report()")
            continue
        ctx.check(after == before, 'R7', 'override:restores:' + tag, mod, ov,
                  "after %s and clear() the class attributes read %r, before the first override they read %r (backups "
                  "of different classes share a dictionary, or the first value is not the one kept)" % (
                      tag, after, before),
                  "FeedbackResponse.override(title='a'); gently.override(title='b'); clear_report() -> gently.title is "
                  "still 'b' for every later grading in the process")
        if any(f.startswith('no_such') for _, fs in steps for f in fs):
            continue
        ctx.check(registered == {c for c in registered} and len(registered) == len({w for w, _ in steps}) and
                  not report.attrs['overridden_feedbacks'], 'R7', 'override:registers:' + tag, mod, ov,
                  "%d class(es) registered for %d overriding class(es); %d left registered after clear" % (
                      len(registered), len({w for w, _ in steps}), len(report.attrs['overridden_feedbacks'])),
                  "clear() never restores this class")
    # Report.clear() performs the restoration unconditionally
    clear = rmod.func('Report.clear')
    ctx.analysed_function(rmod, clear)
    rec = symexec.Recorder()
    me = symexec.self_obj(rmod, 'Report')
    symexec.method(me, 'clear_overridden_feedback', rec.stub('clear_overridden_feedback'))
    fd = symexec.new_fd(sym, rmod)
    fd.attr_hook = lambda base, attr: Obj('%r.%s' % (base, attr), __open__=True)
    try:
        fd.call_function(clear, [], bound_self=me)
        done = len(rec.named('clear_overridden_feedback'))
    except (Raised, Inconclusive):
        # clear() uses constructs outside the fragment: fall back to a call-presence test on every path
        from ..astutil import flat_self_calls
        seq = flat_self_calls(clear.body, rmod.cls('Report'), stop=('clear_overridden_feedback',))
        done = sum(1 for c in seq if isinstance(c.func, ast.Attribute) and c.func.attr == 'clear_overridden_feedback'
                   and not any(isinstance(a, (ast.If, ast.Try, ast.While, ast.For)) for a in _ancestors_until(c, clear)))
    ctx.check(done == 1, 'R7', 'Report.clear:restores', rmod, clear,
              "Report.clear() does not restore overridden feedback classes (exactly once, unconditionally)",
              "an override made by one instructor script is still active for the next submission")


def _ancestors_until(node, stop):
    n = getattr(node, '_parent', None)
    while n is not None and n is not stop:
        if isinstance(n, ast.FunctionDef) and n is not stop:
            # inside a helper: look no further (helpers are flattened by the caller)
            return
        yield n
        n = getattr(n, '_parent', None)


def r8_constructor(ctx, sym):
    ctx.rule('R8', "Feedback.__init__ executed abstractly per attribute (valence, score, correct, muted, unscored, kind, "
                   "priority, category, label, message, title, justification): an explicit keyword argument, falsy "
                   "ones included, becomes the instance's value; None leaves the class default")
    constructor_rule(ctx, sym, 'R8', list(CONSTRUCTOR_DOMAIN))


def r9_parent_kinds(ctx, sym):
    ctx.rule('R9', "sibling agreement of Report.add_feedback / add_ignored_feedback, executed abstractly for every kind "
                   "of parent a feedback may carry (None, a group name, a group number, a group object): the feedback "
                   "is appended once to the right list, a group object is told about its child with the right "
                   "outcome, and nothing raises for a parent given by name or number")
    from .. import symexec
    rmod = ctx.repo.module(REPORT)
    for fname, list_attr, outcome in (('add_feedback', 'feedback', True), ('add_ignored_feedback', 'ignored_feedback',
                                                                          False)):
        fn = rmod.func('Report.' + fname)
        ctx.analysed_function(rmod, fn)
        for pname in ('None', 'name', 'number', 'group-object'):
            rec = symexec.Recorder()
            group = Obj('group')
            symexec.method(group, '_get_child_feedback', rec.stub('_get_child_feedback'))
            parent = {'None': None, 'name': 'question-1', 'number': 3, 'group-object': group}[pname]
            fb = Obj('feedback', parent=parent)
            fb.attrs['__closed__'] = True
            me = symexec.self_obj(rmod, 'Report', feedback=[], ignored_feedback=[])
            symexec.method(me, 'execute_hooks', lambda *a, **k: None)
            fd = symexec.new_fd(sym, rmod, calls={'isinstance': lambda o, t: isinstance(o, t) if isinstance(
                t, (type, tuple)) and all(isinstance(x, type) for x in (t if isinstance(t, tuple) else (t,))) else False})
            _, raised = symexec.run(fd, fn, [fb], bound_self=me, what='Report.' + fname)
            told = rec.named('_get_child_feedback')
            ok = raised is None and me.attrs[list_attr] == [fb] and (
                (len(told) == 1 and told[0][1][:1] == (fb,) and told[0][1][1:2] == (outcome,))
                if pname == 'group-object' else not told)
            ctx.check(ok, 'R9', '%s[parent=%s]' % (fname, pname), rmod, fn,
                      "%s of a feedback whose parent is %s: %s; list %r, group told %r" % (
                          fname, {'None': 'None', 'name': "a group name ('question-1')", 'number': 'a group number (3)',
                                  'group-object': 'a group object'}[pname],
                          'raises %s (%s)' % (raised.kind, raised.detail) if raised is not None else 'returns',
                          [getattr(x, '_name', x) for x in me.attrs[list_attr]], [t[1][1:2] for t in told]),
                      "Feedback(activate=False, parent='question-1') raises AttributeError ('str' object has no "
                      "attribute '_get_child_feedback') although neither the condition nor the message raised")


def r10_logging_commands(ctx, sym):
    ctx.rule('R10', "the logging commands log()/debug(), executed abstractly: every item given becomes the message of "
                    "one feedback (the delivered message is the explicit message)")
    from .. import symexec
    cmod = ctx.repo.module('pedal.core.commands')
    for cname, items, want in (('log', ('a', 5), ['a 5']), ('debug', ('hello',), ['hello']),
                               ('debug', ('x', 'y'), ['x', 'y'])):
        fn = cmod.func(cname)
        ctx.analysed_function(cmod, fn)
        rec = symexec.Recorder()
        fd = symexec.new_fd(sym, cmod, calls={'feedback': rec.stub('feedback', ret=Obj('feedback')),
                                              'Feedback': rec.stub('feedback', ret=Obj('feedback')),
                                              'isinstance': lambda o, t: isinstance(o, t) if isinstance(t, type) else False,
                                              'str': str})
        _, raised = symexec.run(fd, fn, list(items), what='commands.' + cname)
        got = [e[2].get('message') for e in rec.named('feedback')]
        ctx.check(raised is None and got == want, 'R10', '%s%r' % (cname, items), cmod, fn,
                  "%s%r creates feedback with message(s) %r%s; expected %r" % (
                      cname, items, got, '' if raised is None else ' (raises %s)' % raised.kind, want),
                  "debug('hello') records 'No feedback message provided'")


def run(ctx):
    sym = Symbols(ctx.repo)
    r1_ownership(ctx, sym)
    r2_r3_handle_condition(ctx, sym)
    r4_subclasses(ctx, sym)
    r5_message(ctx, sym)
    r6_formatter_dispatch(ctx, sym)
    r7_overrides(ctx, sym)
    r11_initialised_once(ctx, sym)
    r12_wrapper_forwards(ctx, sym)
    r8_constructor(ctx, sym)
    r9_parent_kinds(ctx, sym)
    r10_logging_commands(ctx, sym)
    ctx.assume("correctness of each formatter's output text is not decided")
