SB = 'pedal/sandbox/sandbox.py'
TO = 'pedal/sandbox/timeout.py'

def m(name, rule, key, file, old, new):
    return dict(name=name, kind='mutant', rule=rule, key=key, edits=[dict(file=file, old=old, new=new)])

CASES = [
    m('terminate-until-dead', 'R4', 'timeout()[never-dies]', TO,
      "        target_thread.terminate()\n",
      "        while target_thread.is_alive():\n            target_thread.terminate()\n            target_thread.join(0.05)\n"),
    m('untimed-join-after-raise-exception', 'R4', 'timeout()[', TO,
      "        target_thread.terminate()\n", "        target_thread.terminate()\n        target_thread.join()\n"),
    dict(name='twin-terminate-retried-three-times', kind='twin', edits=[dict(file=TO,
         old="        target_thread.terminate()\n",
         new="        for _attempt in range(3):\n            if not target_thread.is_alive():\n                break\n            target_thread.terminate()\n            target_thread.join(0.01)\n")]),
    dict(name='twin-short-grace-sleep-after-terminate', kind='twin', edits=[dict(file=TO,
         old="        target_thread.terminate()\n",
         new="        target_thread.terminate()\n        target_thread.join(0.01)\n")]),
    dict(name='twin-alive-flag-in-variable', kind='twin', edits=[dict(file=TO,
         old="    if target_thread.is_alive():\n        target_thread.terminate()\n",
         new="    still_running = target_thread.is_alive()\n    if still_running:\n        target_thread.terminate()\n")]),
    m('untimed-join-after-terminate', 'R4', 'timeout()[', TO,
      "        target_thread.terminate()\n", "        target_thread.terminate()\n        target_thread.join()\n"),
    m('join-without-duration', 'R4', 'timeout()[', TO, "    target_thread.join(duration)", "    target_thread.join()"),
    m('alive-thread-not-reported', 'R4', 'timeout()[', TO, "        raise timeout_exception\n    else:", "        return None\n    else:"),
    m('thread-not-daemon', 'R4', 'thread:daemon', TO, "        self.daemon = True\n", "        self.daemon = False\n"),
    m('terminate-injects-keyboardinterrupt', 'R4', 'thread:injects-SystemExit', TO, "        self.raise_exception(SystemExit)", "        self.raise_exception(KeyboardInterrupt)"),
    m('timeout-arm-swallowed', 'R1', 'roles:grader-arm', SB, "        except TimeoutError as timeout_exception:", "        except RuntimeError as timeout_exception:"),
    m('grader-records-other-exception', 'R3', 'grader-records-timeout', SB,
      "            self._capture_exception(timeout_exception, sys.exc_info(),\n                                    code, filename)\n            return self",
      "            self._capture_exception(self.exception, sys.exc_info(),\n                                    code, filename)\n            return self"),
    m('student-role-new-shared-write', 'R2', 'race:Sandbox.result', SB,
      "        except SystemExit as system_exit:\n            self._stop_mocking(context)", "        except SystemExit as system_exit:\n            self.result = None\n            self._stop_mocking(context)"),
    dict(name='repaired-fence-and-stop-mocking', kind='repaired', gone=('R2', 'race:'),
         edits=[dict(file=SB, old="        except SystemExit as system_exit:\n            self._stop_mocking(context)",
                     new="        except SystemExit as system_exit:\n            if context.id in self._abandoned:\n                return self\n            self._stop_mocking(context)"),
                dict(file=SB, old="        except BaseException:\n            # KeyboardInterrupt",
                     new="        except BaseException:\n            if context.id in self._abandoned:\n                raise\n            # KeyboardInterrupt"),
                dict(file=SB, old="        except TimeoutError as timeout_exception:\n            self._stop_patches()",
                     new="        except TimeoutError as timeout_exception:\n            self._abandoned.add(self._context[-1].id)\n            self._stop_mocking(self._context[-1])")]),
]
