SB = 'pedal/sandbox/sandbox.py'
TR = 'pedal/sandbox/tracer.py'

FIX = """        except BaseException:
            # KeyboardInterrupt, GeneratorExit, etc. are not reported as student
            # errors, but the patches must never outlive the execution.
            self._stop_mocking(context)
            raise
"""

NEW_START = """        started = []
        try:
            for a_patch in patches:
                a_patch.start()
                started.append(a_patch)
        except BaseException:
            # A patch that cannot start (e.g., `time` or `sys` was blocked) must not leave the others active
            for a_patch in reversed(started):
                a_patch.stop()
            raise
        self._current_patches.append(patches)
"""

CASES = [
    dict(name='coverage-tracer-single-slot', kind='mutant', rule='R5', key='tracer[coverage]',
         edits=[dict(file=TR, old="        self.coverage, self.p, previous_trace = self._activations.pop()\n", new="        previous_trace = self._activations.pop()[2]\n")]),
    dict(name='coverage-tracer-does-not-restore-trace', kind='mutant', rule='R5', key='tracer[coverage]',
         edits=[dict(file=TR, old="        sys._getframe().f_trace = None\n        sys.settrace(previous_trace)\n", new="")]),
    dict(name='revert-fix-start_patches-all-or-nothing', kind='mutant', rule='R3', key='_start_patches:all-or-nothing',
         edits=[dict(file=SB, old=NEW_START,
                     new="        self._current_patches.append(patches)\n        for a_patch in patches:\n            a_patch.start()\n")]),
    dict(name='start_patches-tracks-before-starting', kind='mutant', rule='R3', key='_start_patches:all-or-nothing',
         edits=[dict(file=SB, old=NEW_START,
                     new="        self._current_patches.append(patches)\n" + NEW_START.replace("        self._current_patches.append(patches)\n", ""))]),
    dict(name='start_mocking-tracks-buffer-before-patching', kind='mutant', rule='R3', key='_start_mocking:all-or-nothing',
         edits=[dict(file=SB, old="        # And do the patches\n        self._start_patches(",
                     new="        self._current_stdout.append(captured_stdout)\n        # And do the patches\n        self._start_patches("),
                dict(file=SB, old="        # Only track the buffer once it is really capturing\n        self._current_stdout.append(captured_stdout)\n", new="")]),
    dict(name='start_mocking-pushes-another-buffer', kind='mutant', rule='R3', key='_start_mocking:pushes-the-patched-buffer',
         edits=[dict(file=SB, old="        self._current_stdout.append(captured_stdout)\n", new="        self._current_stdout.append(io.StringIO())\n")]),
    # rolling back with a pop inside the pushing helper is the same behaviour
    dict(name='twin-start_mocking-rolls-back-with-pop', kind='twin',
         edits=[dict(file=SB, old="        # And do the patches\n        self._start_patches(",
                     new="        self._current_stdout.append(captured_stdout)\n        # And do the patches\n        try:\n          self._start_patches("),
                dict(file=SB, old="            patch('time.sleep', return_value=None),\n        )\n        # Only track the buffer once it is really capturing\n        self._current_stdout.append(captured_stdout)\n",
                     new="            patch('time.sleep', return_value=None),\n          )\n        except BaseException:\n            self._current_stdout.pop()\n            raise\n")]),
    dict(name='twin-start_patches-tracks-then-pops', kind='twin',
         edits=[dict(file=SB, old=NEW_START,
                     new="        self._current_patches.append(patches)\n        started = []\n        try:\n            for a_patch in patches:\n                a_patch.start()\n                started.append(a_patch)\n        except BaseException:\n            self._current_patches.pop()\n            for a_patch in started:\n                a_patch.stop()\n            raise\n")]),
    dict(name='revert-fix-tracer-reentrance', kind='mutant', rule='R5', key='re-entered', edits=[dict(file='pedal/sandbox/tracer.py',
         old="        self.old_tracers.append(sys.gettrace())\n        sys.settrace(self.tracer)\n\n    def __exit__(self, exc_type, exc_val, traceback):\n        sys.settrace(self.old_tracers.pop())",
         new="        self.old_tracer = sys.gettrace()\n        sys.settrace(self.tracer)\n\n    def __exit__(self, exc_type, exc_val, traceback):\n        sys.settrace(self.old_tracer)")]),
    dict(name='revert-fix-baseexception-arm', kind='mutant', rule='R1', key='exceptional-exit',
         edits=[dict(file=SB, old=FIX, new='')]),
    dict(name='baseexception-arm-without-release', kind='mutant', rule='R1', key='exceptional-exit',
         edits=[dict(file=SB, old="            self._stop_mocking(context)\n            raise\n", new="            raise\n")]),
    dict(name='else-arm-loses-release', kind='mutant', rule='R1', key='normal-exit',
         edits=[dict(file=SB, old="        else:\n            self._stop_mocking(context)\n\n        self._next_context_id += 1",
                     new="        else:\n            pass\n\n        self._next_context_id += 1")]),
    dict(name='systemexit-arm-loses-release', kind='mutant', rule='R1', key='normal-exit',
         edits=[dict(file=SB, old="        except SystemExit as system_exit:\n            self._stop_mocking(context)\n",
                     new="        except SystemExit as system_exit:\n")]),
    dict(name='compile-hoisted-above-try', kind='mutant', rule='R1', key='exceptional-exit',
         edits=[dict(file=SB, old="        self.data['__name__'] = \"__main__\"\n        try:\n            # TODO: Support CaitNode and Ast (needs skulpt to support compile better)\n            compiled_code = compile(code, filename, 'exec')\n",
                     new="        self.data['__name__'] = \"__main__\"\n        compiled_code = compile(code, filename, 'exec')\n        try:\n")]),
    dict(name='capture-before-release', kind='mutant', rule='R2', key='except Exception',
         edits=[dict(file=SB, old="            self._stop_mocking(context)\n            self._capture_exception(user_exception, sys.exc_info(),\n                                    code, filename)",
                     new="            self._capture_exception(user_exception, sys.exc_info(),\n                                    code, filename)\n            self._stop_mocking(context)")]),
    dict(name='stop_patches-breaks-after-first', kind='mutant', rule='R3', key='_stop_patches:stops-all',
         edits=[dict(file=SB, old="        for a_patch in patches:\n            a_patch.stop()", new="        for a_patch in patches:\n            a_patch.stop()\n            break")]),
    # tolerating an empty stdout stack changes nothing the property speaks about (an earlier shape rule flagged it)
    dict(name='twin-stop_mocking-tolerates-empty-stack', kind='twin',
         edits=[dict(file=SB, old="        current_stdout = self._current_stdout.pop()\n        try:\n            output = current_stdout.getvalue()",
                     new="        if not self._current_stdout:\n            return\n        current_stdout = self._current_stdout.pop()\n        try:\n            output = current_stdout.getvalue()")]),
    dict(name='new-helper-calls-stop_patches', kind='mutant', rule='R3', key='who-may-call:_stop_patches@Sandbox.clear',
         edits=[dict(file=SB, old="        self.clear_data()\n        self.clear_context()\n        self.clear_mocks()",
                     new="        self._stop_patches()\n        self.clear_data()\n        self.clear_context()\n        self.clear_mocks()")]),
    dict(name='stdout-stack-cleared-elsewhere', kind='mutant', rule='R3', key='_current_stdout',
         edits=[dict(file=SB, old="        self.raw_output = \"\"\n        self.output.clear()\n        return self",
                     new="        self.raw_output = \"\"\n        self.output.clear()\n        self._current_stdout.clear()\n        return self")]),
    dict(name='stdout-assigned-directly', kind='mutant', rule='R4', key='sys.stdout',
         edits=[dict(file=SB, old="            patch('sys.stdout', captured_stdout),\n", new="")]),
    dict(name='stdout-patched-with-fresh-buffer', kind='mutant', rule='R4', key='top-of-stack',
         edits=[dict(file=SB, old="patch('sys.stdout', captured_stdout)", new="patch('sys.stdout', io.StringIO())")]),
    dict(name='sys-modules-written-directly', kind='mutant', rule='R4', key='sys.modules',
         edits=[dict(file=SB, old="        self._module_overrides['__builtins__'] = builtins\n        # Handle allowing",
                     new="        self._module_overrides['__builtins__'] = builtins\n        sys.modules['pedal'] = overridden_modules.get('pedal')\n        # Handle allowing")]),
    dict(name='native-tracer-exit-no-restore', kind='mutant', rule='R5', key='native',
         edits=[dict(file=TR, old="    def __exit__(self, exc_type, exc_val, traceback):\n        sys.settrace(self.old_tracers.pop())",
                     new="    def __exit__(self, exc_type, exc_val, traceback):\n        self.old_tracers.pop()\n        sys.settrace(None)")]),
    dict(name='call-tracer-enter-no-save', kind='mutant', rule='R5', key='calls',
         edits=[dict(file=TR, old="        self._old_traces.append(sys.gettrace())\n        sys.settrace(self.trace_dispatch)",
                     new="        self._old_traces.append(None)\n        sys.settrace(self.trace_dispatch)")]),
    dict(name='call-tracer-exit-conditional', kind='mutant', rule='R5', key='calls',
         edits=[dict(file=TR, old="        sys.settrace(self._old_traces.pop())\n        self.quitting = True",
                     new="        if exc_type is not None:\n            return False\n        sys.settrace(self._old_traces.pop())\n        self.quitting = True")]),
    dict(name='exec-outside-with', kind='mutant', rule='R5', key='exec-inside-with-trace',
         edits=[dict(file=SB, old="            with self.trace.as_filename(filename, code):\n                exec(compiled_code, self.data)",
                     new="            exec(compiled_code, self.data)")]),
    dict(name='real-builtins-into-student-data', kind='mutant', rule='R6', key='fresh-dict',
         edits=[dict(file=SB, old="        data['__builtins__'] = {}\n        for name, value in mocked._default_builtins.items():\n            data['__builtins__'][name] = value",
                     new="        data['__builtins__'] = mocked._default_builtins")]),
    # twins
    dict(name='twin-try-finally-form', kind='twin',
         edits=[dict(file=SB, old="""            self._stop_mocking(context)
            self._capture_exception(user_exception, sys.exc_info(),
                                    code, filename)
        # NOTE: https://docs.python.org/3/library/exceptions.html#SystemExit
        # This exception does not inherit from Exception and has to be caught separately
        except SystemExit as system_exit:
            self._stop_mocking(context)
            self._capture_exception(system_exit, sys.exc_info(),
                                    code, filename)
""" + FIX + """        else:
            self._stop_mocking(context)
""", new="""            self._stop_mocking(context)
            self._capture_exception(user_exception, sys.exc_info(),
                                    code, filename)
        except SystemExit as system_exit:
            self._stop_mocking(context)
            self._capture_exception(system_exit, sys.exc_info(),
                                    code, filename)
        except BaseException:
            self._stop_mocking(context)
            raise
        else:
            self._stop_mocking(context)
""")]),
    dict(name='twin-single-try-finally', kind='twin',
         edits=[dict(file=SB, old="""        try:
            # TODO: Support CaitNode and Ast (needs skulpt to support compile better)
            compiled_code = compile(code, filename, 'exec')
            with self.trace.as_filename(filename, code):
                exec(compiled_code, self.data)
        except Exception as user_exception:
            self._stop_mocking(context)
            self._capture_exception(user_exception, sys.exc_info(),
                                    code, filename)
        # NOTE: https://docs.python.org/3/library/exceptions.html#SystemExit
        # This exception does not inherit from Exception and has to be caught separately
        except SystemExit as system_exit:
            self._stop_mocking(context)
            self._capture_exception(system_exit, sys.exc_info(),
                                    code, filename)
""" + FIX + """        else:
            self._stop_mocking(context)
""", new="""        failure = None
        try:
            compiled_code = compile(code, filename, 'exec')
            with self.trace.as_filename(filename, code):
                exec(compiled_code, self.data)
        except (Exception, SystemExit) as user_exception:
            failure = (user_exception, sys.exc_info())
        finally:
            self._stop_mocking(context)
        if failure is not None:
            self._capture_exception(failure[0], failure[1], code, filename)
""")]),
    dict(name='twin-builtins-dict-copy', kind='twin',
         edits=[dict(file=SB, old="        data['__builtins__'] = {}\n        for name, value in mocked._default_builtins.items():\n            data['__builtins__'][name] = value",
                     new="        data['__builtins__'] = dict(mocked._default_builtins)")]),
]
