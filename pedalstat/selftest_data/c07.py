RT = 'pedal/assertions/runtime.py'
AF = 'pedal/assertions/feedbacks.py'
CP = 'pedal/utilities/comparisons.py'
AC = 'pedal/assertions/commands.py'

def m(name, rule, key, file, old, new):
    return dict(name=name, kind='mutant', rule=rule, key=key, edits=[dict(file=file, old=old, new=new)])

CASES = [
    dict(name='revert-fix-options-forwarded-to-condition', kind='mutant', rule='R11', key='assert_equal(explanation=',
         edits=[dict(file='pedal/assertions/feedbacks.py', old='        explanation = kwargs.pop("explanation", "")', new='        explanation = kwargs.get("explanation", "")')]),
    dict(name='context-option-forwarded', kind='mutant', rule='R11', key='assert_less(context=',
         edits=[dict(file='pedal/assertions/feedbacks.py', old="        context = kwargs.pop('context', None)", new="        context = kwargs.get('context', None)")]),
    dict(name='twin-options-deleted-after-use', kind='twin',
         edits=[dict(file='pedal/assertions/feedbacks.py', old='        explanation = kwargs.pop("explanation", "")', new='        explanation = kwargs.get("explanation", "")\n        kwargs.pop("explanation", None)')]),
    m('assert_in-uses-in', 'R1', 'assert_in:relation', RT, "        return unwrap_value(needle.value) not in haystack.value", "        return unwrap_value(needle.value) in haystack.value and not errors(needle, haystack)"),
    m('revert-fix-ordering', 'R1', 'assert_less:relation', RT, "        return not (left.value < right.value)", "        return left.value >= right.value"),
    m('length-off-by-one', 'R1', 'assert_length_less:relation', RT, "        return len(sequence.value) >= length.value", "        return len(sequence.value) > length.value"),
    m('assert_false-inverted', 'R1', 'assert_false:relation', RT, "        return bool(left.value)\n", "        return not bool(left.value)\n"),
    m('is_none-uses-equality', 'R1', 'assert_is_none:relation', RT, "        return left.value is not None\n", "        return not left.value\n"),
    m('regex-match-instead-of-search', 'R1', 'assert_regex:relation', RT, "        return errors(regex, text) or re.search(unwrap_value(regex.value), str(text.value)) is None", "        return errors(regex, text) or re.match(unwrap_value(regex.value), str(text.value)) is None"),
    m('drop-errors-from-assert_equal', 'R3', 'assert_equal:error-operand', RT, "        return errors(left, right) or not equality_test(left.value, right.value, exact_strings, delta)", "        return not equality_test(left.value, right.value, exact_strings, delta)"),
    m('equal-args-swapped-with-delta', 'R1e', 'assert_equal:relation', RT, "        return errors(left, right) or not equality_test(left.value, right.value, exact_strings, delta)", "        return errors(left, right) or not equality_test(right.value, left.value, exact_strings, delta)"),
    m('revert-fix-errors-assert_true', 'R3', 'assert_true:error-operand', RT, "        return errors(left) or not bool(left.value)", "        return not bool(left.value)"),
    m('revert-fix-errors-not_equal', 'R3', 'assert_not_equal:error-operand', RT, "        return errors(left, right) or equality_test(left.value, right.value, exact_strings, delta)", "        return equality_test(left.value, right.value, exact_strings, delta)"),
    m('revert-fix-unwrap-needle', 'R5', 'assert_in:proxy', RT, "        return unwrap_value(needle.value) not in haystack.value", "        return needle.value not in haystack.value"),
    m('revert-fix-unwrap-regex', 'R5', 'assert_regex:proxy', RT, "        return errors(regex, text) or re.search(unwrap_value(regex.value), str(text.value)) is None", "        return errors(regex, text) or re.search(regex.value, str(text.value)) is None"),
    m('assert_is-forgets-unwrap', 'R5', 'assert_is:proxy', RT,
      "        left = left.value._actual_value if left.is_sandboxed else left.value\n        right = right.value._actual_value if right.is_sandboxed else right.value\n        return left is not right",
      "        return left.value is not right.value"),
    m('pair-both-pass', 'R2', 'pair:assert_is_none/assert_is_not_none', RT,
      "        if errors(left):\n            return True\n        if left.is_sandboxed:\n            return left.value._actual_value is None\n        return left.value is None",
      "        if errors(left):\n            return True\n        return False"),
    m('revert-fix-float-symmetry', 'R6', 'equality_test', CP,
      "    if ((isinstance(expected, float) and isinstance(actual, (float, int))) or\n            (isinstance(actual, float) and isinstance(expected, (float, int)))):", "    if isinstance(expected, float) and isinstance(actual, (float, int)):"),
    m('string-normalisation-one-sided', 'R6', 'equality_test', CP,
      "            return _normalize_string(expected) == _normalize_string(actual)", "            return _normalize_string(expected) == actual.lower()"),
    m('error-children-count-as-success', 'R7', '_get_child_feedback[ERROR]', AF,
      "            elif feedback._status == FeedbackStatus.ERROR:\n                self.errors.append(feedback)", "            elif feedback._status == FeedbackStatus.ERROR:\n                self.successes.append(feedback)"),
    m('unit_test-returns-group', 'R7', 'unit_test:returns', AC, "    return not group_result\n\n\nclass check_dataclass_error", "    return group_result\n\n\nclass check_dataclass_error"),
    m('group-ignores-errors', 'R7', 'assert_group.condition', AF, "        return self.errors or self.failures", "        return self.failures"),
    m('revert-fix-has_attr-init', 'R8', 'assert_has_attr', RT,
      "    def __init__(self, obj, attr, **kwargs):\n        super().__init__(SandboxedValue(obj), ExactValue(attr), **kwargs)\n\n    def condition(self, obj, attr):\n        \"\"\" Tests if the object does not have the attribute \"\"\"",
      "    def condition(self, obj, attr):\n        \"\"\" Tests if the object does not have the attribute \"\"\""),
    dict(name='twin-not-in-as-not', kind='twin',
         edits=[dict(file=RT, old="        return unwrap_value(needle.value) not in haystack.value", new="        return not (unwrap_value(needle.value) in haystack.value)")]),
    dict(name='twin-errors-first-statement', kind='twin',
         edits=[dict(file=RT, old="        return errors(left) or not bool(left.value)", new="        if errors(left):\n            return True\n        return not bool(left.value)")]),
    dict(name='repaired-wrapper-reraises', kind='repaired', gone=('R4', 'swallows'),
         edits=[dict(file=AF, old="            if parent is not None:\n                if not parent.try_all:\n                    raise AssertionBreak(self, e)", new="            if parent is not None:\n                if not parent.try_all:\n                    raise AssertionBreak(self, e)\n            raise")]),
]
