TC = 'pedal/tifa/tifa_core.py'
TV = 'pedal/tifa/tifa_visitor.py'
CX = 'pedal/tifa/contexts.py'

def m(name, rule, key, file, old, new):
    return dict(name=name, kind='mutant', rule=rule, key=key, edits=[dict(file=file, old=old, new=new)])

CASES = [
    m('match_rso-returns-left', 'R1', 'match_rso(', TC, "        if left == right:\n            return left\n        else:\n            return \"maybe\"", "        return left"),
    m('one-sided-set-becomes-yes', 'R1', 'combine_states(one-sided', TC, "            state.set = 'no' if left.set == 'no' else 'maybe'", "            state.set = 'no' if left.set == 'no' else 'yes'"),
    m('one-sided-set-yes-flow', 'R5', 'flow:branches:sometimes', TC, "            state.set = 'no' if left.set == 'no' else 'maybe'", "            state.set = left.set"),
    m('maybe-issues-nothing', 'R2', 'load_variable[set=maybe]', TC, "            if variable.state.set == 'maybe':\n                if name != '*return':", "            if variable.state.set == 'maybe':\n                if name == '*return':"),
    m('maybe-issues-nothing-flow', 'R5', 'flow:branches:sometimes', TC, "            if variable.state.set == 'maybe':\n                if name != '*return':", "            if variable.state.set == 'maybe':\n                if name == '*return':"),
    m('set-no-not-reported', 'R5', 'flow:branches:never', TC, "            if variable.state.set == 'no':\n                self._issue(initialization_problem(self.locate(), name))", "            if variable.state.set == 'no':\n                pass"),
    m('while-drops-merge', 'R3', 'visit_While:paths', TV, "        self.merge_paths(this_path_id, body_path.id, empty_path.id)\n\n        self._finish_loop()", "        self._finish_loop()"),
    m('while-body-on-current-path', 'R5', 'flow:missed-uninitialised-read:while', TV,
      "        body_path = NewPath(self, this_path_id, \"w\")\n        with body_path:\n            for statement in node.body:\n                self.visit(statement)\n            # Revisit conditional\n            self.visit(node.test)",
      "        body_path = NewPath(self, this_path_id, \"w\")\n        with body_path:\n            pass\n        for statement in node.body:\n            self.visit(statement)\n        self.visit(node.test)"),
    m('if-else-visited-on-if-path', 'R5', 'flow:', TV,
      "        else_path = NewPath(self, this_path_id, \"e\")\n        with else_path:\n            for statement in node.orelse:\n                self.visit(statement)",
      "        else_path = NewPath(self, this_path_id, \"e\")\n        with else_path:\n            pass\n        with if_path:\n            for statement in node.orelse:\n                self.visit(statement)"),
    m('merge-skips-right-only-names', 'R4', 'merge_paths:right-only', TC,
      "        for right_name in self.name_map[right_path_id]:\n            if right_name not in self.name_map[left_path_id]:", "        for right_name in []:\n            if right_name not in self.name_map[left_path_id]:"),
    m('merge-skips-right-only-names-flow', 'R5', 'flow:', TC,
      "        for right_name in self.name_map[right_path_id]:\n            if right_name not in self.name_map[left_path_id]:", "        for right_name in []:\n            if right_name not in self.name_map[left_path_id]:"),
    m('newpath-does-not-pop', 'R5', 'flow:branches', CX, "        self.tifa.path_chain.pop(0)\n", "        pass\n"),
    m('unused-requires-maybe', 'R2', '_finish_scope:unused', TC, "                if state.read == 'no' and state.name != '_':", "                if state.read == 'maybe' and state.name != '_':"),
    m('search-parents-stops-at-first', 'R5', 'flow:', TC,
      "        elif parent_id in self.path_parents:\n            parent_id = self.path_parents[parent_id]\n            return self.search_parents(parent_id, seeking_name)", "        elif False:\n            return None"),
    m('store-keeps-read-flag', 'R5', 'flow:unused:missed', TC, "                new_state.set = 'yes'\n                new_state.read = 'no'", "                new_state.set = 'yes'"),
    dict(name='repaired-visit_For-with-paths', kind='repaired', gone=('R3', 'visit_For:paths'),
         edits=[dict(file=TV, old="        # Handle the bodies\n        # if not was_empty:\n        # this_path_id = self.path_chain[0]\n        # non_empty_path = NewPath(self, this_path_id, \"f\")\n        # with non_empty_path:\n        self.visit_statements(node.body)\n        self.visit_statements(node.orelse)\n",
                     new="        this_path_id = self.path_chain[0]\n        empty_path = NewPath(self, this_path_id, \"e\")\n        with empty_path:\n            pass\n        body_path = NewPath(self, this_path_id, \"f\")\n        with body_path:\n            self.visit_statements(node.body)\n        self.merge_paths(this_path_id, body_path.id, empty_path.id)\n        self.visit_statements(node.orelse)\n")]),
    dict(name='twin-match_rso-dict', kind='twin',
         edits=[dict(file=TC, old="        if left == right:\n            return left\n        else:\n            return \"maybe\"", new="        return left if left == right else \"maybe\"")]),
]
