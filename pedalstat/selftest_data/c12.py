SRC = 'pedal/source/source.py'
SF = 'pedal/source/feedbacks.py'
UX = 'pedal/utilities/exceptions.py'

def m(name, rule, key, file, old, new):
    return dict(name=name, kind='mutant', rule=rule, key=key, edits=[dict(file=file, old=old, new=new)])

CASES = [
    m('only-indentation-handled', 'R1', 'verify:escapes:SyntaxError', SRC,
      "    except SyntaxError as e:\n        if e.filename is None:\n            # CPython gives no filename for some errors (e.g., null bytes in the source)\n            e.filename = filename\n        syntax_error(e.lineno, e.filename, code, e.offset, e,\n                     sys.exc_info(), report=report, muted=muted, enhance=enhance)\n        report[TOOL_NAME]['success'] = False\n        report[TOOL_NAME]['ast'] = ast.parse(\"\")\n", ""),
    m('parse-hoisted-out-of-try', 'R1', 'verify:escapes:', SRC,
      "    try:\n        parsed = ast.parse(code, filename)\n        report[TOOL_NAME]['ast'] = parsed\n", "    parsed = ast.parse(code, filename)\n    try:\n        report[TOOL_NAME]['ast'] = parsed\n"),
    m('syntax-error-also-in-else', 'R3', 'verify:constructs-once[accepted', SRC,
      "    else:\n        report[TOOL_NAME]['success'] = True\n    return report[TOOL_NAME]['success']", "    else:\n        report[TOOL_NAME]['success'] = True\n        if muted:\n            syntax_error(1, filename, code, 0, None, None, report=report)\n    return report[TOOL_NAME]['success']"),
    m('handler-conditional-feedback', 'R3', 'verify:constructs-once[SyntaxError', SRC,
      "            e.filename = filename\n        syntax_error(e.lineno, e.filename, code, e.offset, e,\n                     sys.exc_info(), report=report, muted=muted, enhance=enhance)",
      "            e.filename = filename\n        if enhance:\n            syntax_error(e.lineno, e.filename, code, e.offset, e,\n                         sys.exc_info(), report=report, muted=muted, enhance=enhance)"),
    m('handler-success-true', 'R3', 'verify:success[SyntaxError', SRC,
      "e,\n                     sys.exc_info(), report=report, muted=muted, enhance=enhance)\n        report[TOOL_NAME]['success'] = False", "e,\n                     sys.exc_info(), report=report, muted=muted, enhance=enhance)\n        report[TOOL_NAME]['success'] = True"),
    m('wrong-line-argument', 'R3', 'args', SRC,
      "        syntax_error(e.lineno, e.filename, code, e.offset, e,", "        syntax_error(e.end_lineno, e.filename, code, e.offset, e,"),
    # the property accepts "syntax or indentation error" for a rejected text: which of the two classes is built for an
    # IndentationError is not a clause (an earlier, shape-based R3 flagged this edit - over-demanding)
    dict(name='twin-indentation-handler-builds-syntax-error', kind='twin', edits=[dict(file=SRC,
         old="        indentation_error(e.lineno, e.filename, code, e.offset, e,\n                          sys.exc_info()",
         new="        syntax_error(e.lineno, e.filename, code, e.offset, e,\n                          sys.exc_info()")]),
    m('parse-stripped-code', 'R4', 'parses-code', SRC,
      "        parsed = ast.parse(code, filename)", "        parsed = ast.parse(code.strip(), filename)"),
    m('code-normalised-before-parse', 'R4', 'verify:parses-code', SRC,
      "    if report.submission.load_error:", "    code = code.replace('\\t', '    ')\n    if report.submission.load_error:"),
    m('stores-empty-tree-on-success', 'R4', 'stores-parse-result', SRC,
      "        report[TOOL_NAME]['ast'] = parsed\n", "        report[TOOL_NAME]['ast'] = ast.parse('')\n"),
    m('blank-test-dropped', 'R5', 'verify:blank', SRC,
      "    if code.strip() == '':\n        blank_source(", "    if code == '':\n        blank_source("),
    # fix 76b227e: the null-byte SyntaxError carries no file name
    # (since 12d227e the traceback itself names a file-less frame "<string>": without the fix in verify() the syntax
    #  error is still filed without raising, so reverting it alone is benign for this property)
    dict(name='twin-revert-fix-missing-filename', kind='twin', edits=[dict(file=SRC, old="        if e.filename is None:\n            # CPython gives no filename for some errors (e.g., null bytes in the source)\n            e.filename = filename\n", new="")]),
    dict(name='revert-both-fixes-missing-filename', kind='mutant', rule='R9', key='null-byte-error:TerminalFormatter', edits=[
        dict(file=SRC, old="        if e.filename is None:\n            # CPython gives no filename for some errors (e.g., null bytes in the source)\n            e.filename = filename\n", new=""),
        dict(file=UX, old='            filename = self.exception.filename if self.exception.filename is not None else "<string>"\n',
             new='            filename = self.exception.filename\n')]),
    # the property says "never raises", not where the missing name is supplied: formatters that render whatever they get
    dict(name='twin-formatters-tolerate-missing-filename', kind='twin', edits=[
        dict(file=SRC, old="        if e.filename is None:\n            # CPython gives no filename for some errors (e.g., null bytes in the source)\n            e.filename = filename\n", new=""),
        dict(file='pedal/core/formatting.py', old="        return self.html_code(filename, \"pedal-filename\")",
             new="        return self.html_code(str(filename), \"pedal-filename\")"),
        dict(file='pedal/environments/terminal.py', old="    def filename(self, filename):\n",
             new="    def filename(self, filename):\n        filename = str(filename)\n")]),
    dict(name='twin-missing-filename-filled-by-helper', kind='twin', edits=[
        dict(file=SRC, old="        if e.filename is None:\n            # CPython gives no filename for some errors (e.g., null bytes in the source)\n            e.filename = filename\n", new="        _name_the_file(e, filename)\n"),
        dict(file=SRC, old="# Legacy verify_section; now done by verify since its aware of sections\n",
             new="def _name_the_file(error, filename):\n    if getattr(error, 'filename', None) is None:\n        error.filename = filename\n\n\n# Legacy verify_section; now done by verify since its aware of sections\n")]),
    m('revert-fix-line-default', 'R2', 'syntax_error.__init__', SF,
      "        if line is None:\n            # CPython gives no position for some errors (e.g., null bytes in the source)\n            line = 1\n", ""),
    m('revert-fix-offset-default', 'R2', 'build_traceback', UX,
      "            offset = self.exception.offset if self.exception.offset is not None else 1\n", "            offset = self.exception.offset\n"),
    m('revert-fix-frame-lineno', 'R2', 'build_traceback:made-up-frame', UX,
      "                                   lineno, None, offset-1, end_lineno, end_offset-1)", "                                   self.exception.lineno, None, offset-1, end_lineno, end_offset-1)"),
    m('line-without-offset', 'R6', 'lineno=line+offset', SF,
      "        fields = {'lineno': line + line_offset,", "        fields = {'lineno': line,"),
    m('location-without-offset', 'R6', 'syntax_error:lineno=line+offset', SF,
      "        location = Location(line=line + line_offset, col=col_offset, filename=filename)", "        location = Location(line=line, col=col_offset, filename=filename)"),
    dict(name='twin-delete-indentation-handler-falls-to-syntax', kind='twin',
         edits=[dict(file=SRC, old="    except IndentationError as e:\n        indentation_error(e.lineno, e.filename, code, e.offset, e,\n                          sys.exc_info(), report=report, muted=muted, enhance=enhance)\n        report[TOOL_NAME]['success'] = False\n        report[TOOL_NAME]['ast'] = ast.parse(\"\")\n", new="")]),
    dict(name='twin-line-or-default', kind='twin',
         edits=[dict(file=SF, old="        if line is None:\n            # CPython gives no position for some errors (e.g., null bytes in the source)\n            line = 1\n", new="        line = line or 1\n")]),
    dict(name='repaired-except-exception-arm', kind='repaired', gone=('R1', 'verify:escapes:ValueError'),
         edits=[dict(file=SRC, old="    else:\n        report[TOOL_NAME]['success'] = True\n    return report[TOOL_NAME]['success']",
                     new="    except Exception as e:\n        report[TOOL_NAME]['success'] = False\n        report[TOOL_NAME]['ast'] = ast.parse(\"\")\n    else:\n        report[TOOL_NAME]['success'] = True\n    return report[TOOL_NAME]['success']")]),
]
