FB = 'pedal/core/feedback.py'
SI = 'pedal/resolvers/simple.py'
FU = 'pedal/resolvers/full.py'
SE = 'pedal/resolvers/sectional.py'
FF = 'pedal/core/final_feedback.py'
RP = 'pedal/core/report.py'

CASES = [
    dict(name='revert-fix-location-eq', kind='mutant', rule='R7', key='dataclass-eq:pedal.core.location.Location',
         edits=[dict(file='pedal/core/location.py', old="    def __eq__(self, other):\n", new="    def _same_place(self, other):\n")]),
    dict(name='twin-location-declares-its-fields', kind='twin',
         edits=[dict(file='pedal/core/location.py', old="    def __eq__(self, other):\n", new="    line: int = None\n    col: int = None\n    end_line: int = None\n    end_col: int = None\n    filename: str = None\n\n    def _same_place(self, other):\n")]),
    dict(name='twin-location-eq-off', kind='twin',
         edits=[dict(file='pedal/core/location.py', old="@dataclass\nclass Location:", new="@dataclass(eq=False)\nclass Location:"),
                dict(file='pedal/core/location.py', old="    def __eq__(self, other):\n", new="    def _same_place(self, other):\n")]),
    dict(name='swap-runtime-algorithmic', kind='mutant', rule='R1', key='order',
         edits=[dict(file=FB, old="    Feedback.CATEGORIES.ALGORITHMIC,\n    # Dynamic\n    Feedback.CATEGORIES.RUNTIME,",
                     new="    Feedback.CATEGORIES.RUNTIME,\n    # Dynamic\n    Feedback.CATEGORIES.ALGORITHMIC,")]),
    dict(name='drop-specification-rank', kind='mutant', rule='R1', key='order',
         edits=[dict(file=FB, old="    Feedback.CATEGORIES.SPECIFICATION,\n    Feedback.CATEGORIES.POSITIVE,", new="    Feedback.CATEGORIES.POSITIVE,")]),
    dict(name='low-offset-below-high', kind='mutant', rule='R2', key='offsets',
         edits=[dict(file=SI, old="    if priority == 'low':\n        return .7", new="    if priority == 'low':\n        return .2")]),
    dict(name='unknown-offset-crosses-rank', kind='mutant', rule='R2', key='offset-unknown',
         edits=[dict(file=SI, old="    else:\n        return .1", new="    else:\n        return 1.1")]),
    dict(name='rerank-keeps-offset-name', kind='mutant', rule='R2', key='rerank',
         edits=[dict(file=SI, old="        value = DEFAULT_CATEGORY_PRIORITY.index(priority)\n        priority = 'medium'", new="        value = DEFAULT_CATEGORY_PRIORITY.index(priority)")]),
    dict(name='unknown-category-ranks-first', kind='mutant', rule='R2', key='other-category',
         edits=[dict(file=SI, old="        value = len(DEFAULT_CATEGORY_PRIORITY)", new="        value = -1")]),
    dict(name='category-case-sensitive', kind='mutant', rule='R2', key='case',
         edits=[dict(file=SI, old="        category = feedback.category.lower()", new="        category = feedback.category")]),
    dict(name='by_priority-none-category-crash', kind='mutant', rule='R2', key='raises',
         edits=[dict(file=SI, old="    category = Feedback.CATEGORIES.UNKNOWN\n    if feedback.category is not None:\n        category = feedback.category.lower()",
                     new="    category = feedback.category.lower()")]),
    dict(name='sort-reversed', kind='mutant', rule='R3', key='simple:stable-sort',
         edits=[dict(file=SI, old="feedbacks.sort(key=priority_key)", new="feedbacks.sort(key=priority_key, reverse=True)")]),
    # untriggered feedback never competes for the message and scores add up commutatively: listing the ignored
    # feedback first is behaviour-preserving for C01 (an earlier, shape-based version of R3 flagged it - over-demanding)
    dict(name='twin-full-lists-ignored-first', kind='twin',
         edits=[dict(file=FU, old="feedbacks = report.feedback + report.ignored_feedback", new="feedbacks = report.ignored_feedback + report.feedback")]),
    dict(name='add_feedback-inserts-front', kind='mutant', rule='R3', key='writer:feedback.insert',
         edits=[dict(file=RP, old="        self.feedback.append(feedback)\n        if not isinstance", new="        self.feedback.insert(0, feedback)\n        if not isinstance")]),
    dict(name='sectional-default-key-changed', kind='mutant', rule='R3', key='sectional:priority_key',
         edits=[dict(file=SE, old="def resolve(report=MAIN_REPORT, priority_key=by_priority):", new="def resolve(report=MAIN_REPORT, priority_key=id):")]),
    dict(name='resolver-stops-at-first', kind='mutant', rule='R5', key='simple:merge-all',
         edits=[dict(file=SI, old="    for feedback in feedbacks:\n        final.merge(feedback)", new="    for feedback in feedbacks:\n        final.merge(feedback)\n        break")]),
    dict(name='resolver-skips-finalize', kind='mutant', rule='R5', key='simple:merge-all',
         edits=[dict(file=SI, old="    final.finalize()\n    report.result = final", new="    report.result = final")]),
    dict(name='muted-filter-dropped', kind='mutant', rule='R4', key='merge:selection',
         edits=[dict(file=FF, old="        if not feedback or feedback.muted:\n            return", new="        if not feedback:\n            return")]),
    dict(name='first-wins-dropped', kind='mutant', rule='R4', key='merge:selection',
         edits=[dict(file=FF, old="        if message is not None and self.message is None:", new="        if message is not None:")]),
    dict(name='compliment-filter-dropped', kind='mutant', rule='R4', key='merge:selection',
         edits=[dict(file=FF, old="        if feedback.kind == Feedback.KINDS.COMPLIMENT:\n            self.positives.append(feedback)\n            return feedback", new="        if feedback.kind == Feedback.KINDS.COMPLIMENT:\n            self.positives.append(feedback)")]),
    dict(name='label-suppression-ignores-fields', kind='mutant', rule='R4', key='merge:selection',
         edits=[dict(file=FF, old="                    if feedback.fields.get(field, None) != value:\n                        break\n                else:\n                    return\n",
                     new="                    if feedback.fields.get(field, None) != value:\n                        pass\n                else:\n                    return\n")]),
    dict(name='category-suppression-inverted', kind='mutant', rule='R4', key='merge:selection',
         edits=[dict(file=FF, old="            if True in self.suppressions[category]:\n                return", new="            if True not in self.suppressions[category]:\n                return")]),
    dict(name='default-result-not-installed', kind='mutant', rule='R4', key='merge:selection[hide-correct]',
         edits=[dict(file=FF, old="            self.title = self.DEFAULT_NO_FEEDBACK_TITLE\n            self.message = self.DEFAULT_NO_FEEDBACK_MESSAGE", new="            self.title = self.DEFAULT_NO_FEEDBACK_TITLE")]),
    dict(name='revert-fix-getitem', kind='mutant', rule='R6', key='merge:raises:TypeError',
         edits=[dict(file=FF, old="                    if feedback.fields.get(field, None) != value:\n                        break\n                else:\n                    return\n",
                     new="                    if feedback['fields'].get(field, None) != value:\n                        break\n                else:\n                    return\n")]),
    dict(name='revert-fix-none-category', kind='mutant', rule='R6', key='merge:raises:AttributeError',
         edits=[dict(file=FF, old="        category = Feedback.CATEGORIES.UNKNOWN\n        if feedback.category is not None:\n            category = feedback.category.lower()",
                     new="        category = feedback.category.lower()")]),
    dict(name='merge-reads-undefined-attribute', kind='mutant', rule='R6', key='merge:feedback.silenced',
         edits=[dict(file=FF, old="        if not feedback or feedback.muted:\n            return", new="        if not feedback or feedback.muted or feedback.silenced:\n            return")]),
    # twins
    dict(name='twin-rank-table-concatenated', kind='twin',
         edits=[dict(file=FB, old="DEFAULT_CATEGORY_PRIORITY = [\n    \"highest\",", new="DEFAULT_CATEGORY_PRIORITY = [\"highest\"] + [")]),
    dict(name='twin-sorted-builtin', kind='twin',
         edits=[dict(file=SI, old="    feedbacks = report.feedback + report.ignored_feedback\n    feedbacks.sort(key=priority_key)",
                     new="    feedbacks = report.feedback + report.ignored_feedback\n    feedbacks = sorted(feedbacks, key=priority_key)")]),
    dict(name='twin-filters-reordered', kind='twin',
         edits=[dict(file=FF, old="""        if not feedback or feedback.muted:
            return
        # If this is explicitly a positive feedback, add it to the positives list and stop
        if feedback.kind == Feedback.KINDS.COMPLIMENT:
            self.positives.append(feedback)
            return feedback
""", new="""        if not feedback:
            return
        if feedback.kind == Feedback.KINDS.COMPLIMENT and not feedback.muted:
            self.positives.append(feedback)
            return feedback
        if feedback.muted:
            return
""")]),
    dict(name='twin-offsets-other-values', kind='twin',
         edits=[dict(file=SI, old="        return .7\n", new="        return .75\n")]),
    dict(name='twin-category-or-default', kind='twin',
         edits=[dict(file=FF, old="        category = Feedback.CATEGORIES.UNKNOWN\n        if feedback.category is not None:\n            category = feedback.category.lower()",
                     new="        category = (feedback.category or Feedback.CATEGORIES.UNKNOWN).lower()")]),
]
