RP = 'pedal/core/report.py'
FB = 'pedal/core/feedback.py'
EN = 'pedal/core/environment.py'
CM = 'pedal/core/commands.py'
TC = 'pedal/tifa/commands.py'
TI = 'pedal/tifa/__init__.py'
CA = 'pedal/cait/cait_api.py'
ST = 'pedal/environments/standard.py'
NT = 'pedal/types/new_types.py'

def m(name, rule, key, file, old, new):
    return dict(name=name, kind='mutant', rule=rule, key=key, edits=[dict(file=file, old=old, new=new)])

CASES = [
    dict(name='revert-fix-literal-fields-shared', kind='mutant', rule='R1', key='type:LiteralStr:own-fields',
         edits=[dict(file='pedal/types/new_types.py', old="        # Type.__init__ gives this instance its own `fields` table (instead of sharing the class's)\n        super().__init__()\n", new="")]),
    dict(name='twin-literal-init-calls-Type-init-explicitly', kind='twin',
         edits=[dict(file='pedal/types/new_types.py', old="        # Type.__init__ gives this instance its own `fields` table (instead of sharing the class's)\n        super().__init__()\n", new="        Type.__init__(self)\n")]),
    m('new-module-cache-in-tifa', 'R1', 'state:pedal.tifa.commands:_RESULT_CACHE', TC,
      "def tifa_analysis(code=None, report=MAIN_REPORT):", "_RESULT_CACHE = {}\n\n\ndef tifa_analysis(code=None, report=MAIN_REPORT, _cache=True):\n    _RESULT_CACHE[code] = report\n    return _tifa_analysis(code, report)\n\n\ndef _tifa_analysis(code=None, report=MAIN_REPORT):"),
    m('class-level-list-appended', 'R1', 'state:pedal.core.report:Report.HISTORY', RP,
      "    TOOLS = {}\n", "    TOOLS = {}\n    HISTORY = []\n\n    def remember(self, item):\n        self.HISTORY.append(item)\n"),
    m('tool-registered-at-run-time', 'R1', 'state:pedal.core.report:Report.TOOLS', CA,
      "    report[TOOL_NAME] = {\n        'success': True,", "    Report.register_tool(TOOL_NAME + '2', reset)\n    report[TOOL_NAME] = {\n        'success': True,"),
    m('builtin-modules-reset-dropped', 'R1', 'state:pedal.types.new_types:BUILTIN_MODULES', TI,
      "    reset_builtin_modules()\n", ""),
    m('revert-fix-pools', 'R2', ':pools', RP, "        self.format = Formatter()\n        self.pools = []\n        self.chosen_pool = None\n", "        self.format = Formatter()\n        self.chosen_pool = None\n"),
    m('hooks-not-cleared', 'R2', ':hooks', RP, "        self.hooks.clear()\n", ""),
    m('suppressions-not-cleared', 'R2', ':suppressions', RP, "        self.suppressions.clear()\n", ""),
    m('new-init-attribute-never-cleared', 'R2', ':seen_labels', RP,
      "        self.resolves = []\n        self.pools = []", "        self.resolves = []\n        self.seen_labels = set()\n        self.pools = []"),
    m('tool-data-survives-clear', 'R3', 'Report.clear:tool-data', RP, "        self._tool_data.clear()\n", ""),
    m('lazy-reset-removed', 'R3', 'lazy-reset', RP,
      "            self.TOOLS[tool_name].reset(report=self)\n", "            self._tool_data[tool_name] = {}\n"),
    m('cait-reset-mutates-in-place', 'R3', 'reset@pedal.cait.cait_api', CA,
      "    report[TOOL_NAME] = {\n        'success': True,\n        'error': None,\n        'ast': None,\n        'cache': {},\n        'errors': {}\n    }",
      "    report[TOOL_NAME].update({\n        'success': True,\n        'error': None,\n        'ast': None,\n    })"),
    m('environment-without-clear', 'R4', 'Environment.__init__', EN, "        self.report = report\n        report.clear()\n", "        self.report = report\n"),
    dict(name='environment-clears-after-contextualize', kind='mutant', rule='R4', key='Environment.__init__',
         edits=[dict(file=EN, old="        self.report = report\n        report.clear()\n", new="        self.report = report\n"),
                dict(file=EN, old="        self.report.contextualize(self.submission)\n", new="        self.report.contextualize(self.submission)\n        report.clear()\n")]),
    m('contextualize-default-no-clear', 'R4', 'contextualize_report', CM, "def contextualize_report(submission, filename='answer.py', clear=True,", "def contextualize_report(submission, filename='answer.py', clear=False,"),
    m('clear-forgets-overrides', 'R5', 'Report.clear:restores', RP, "        self.chosen_pool = None\n        self.clear_overridden_feedback()", "        self.chosen_pool = None"),
    m('revert-fix-own-namespace', 'R5', 'override:restores', FB, "        if cls.__dict__.get('_override_backups') is None:", "        if cls._override_backups is None:"),
    m('random-tiebreak-in-resolver', 'R6', 'nondeterminism:random.random', 'pedal/resolvers/simple.py',
      "    offset = priority_offset(priority)\n    return value + offset", "    import random\n    offset = priority_offset(priority)\n    return value + offset + random.random() / 1000"),
    dict(name='repaired-pools-in-report', kind='repaired', gone=('R1', 'Feedback._pools'),
         edits=[dict(file=FB, old="            if each_pool not in cls._pools:\n                cls._pools[each_pool] = {}\n            cls._pools[each_pool].update(fields)",
                     new="            pass")]),
    dict(name='twin-clear-reassigns', kind='twin',
         edits=[dict(file=RP, old="        self.hooks.clear()\n", new="        self.hooks = {}\n")]),
]
