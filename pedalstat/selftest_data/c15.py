SB = 'pedal/sandbox/sandbox.py'
CM = 'pedal/sandbox/commands.py'

def m(name, rule, key, old, new, file=SB):
    return dict(name=name, kind='mutant', rule=rule, key=key, edits=[dict(file=file, old=old, new=new)])

CASES = [
    dict(name='revert-fix-set_input-clears-in-place', kind='mutant', rule='R5', key='set_input[the queue itself]',
         edits=[dict(file='pedal/sandbox/sandbox.py', old="            # A new list rather than `.clear()`: the argument may be the current queue itself\n            # (`get_input()` hands that out), and the queue may have been replaced by a function\n            self.inputs = []\n",
                     new="            self.inputs.clear()\n")]),
    dict(name='clear_output-rewrites-execution-records', kind='mutant', rule='R5', key='clear_output:keeps-execution-records',
         edits=[dict(file='pedal/sandbox/sandbox.py', old="        # Update outputs\n        self.raw_output = \"\"\n", new="        # Update outputs\n        self.raw_output = \"\"\n        for context in self._context:\n            context.output = \"\"\n")]),
    dict(name='twin-set_input-copies-then-clears', kind='twin',
         edits=[dict(file='pedal/sandbox/sandbox.py', old="            # A new list rather than `.clear()`: the argument may be the current queue itself\n            # (`get_input()` hands that out), and the queue may have been replaced by a function\n            self.inputs = []\n",
                     new="            if isinstance(inputs, (list, tuple)):\n                inputs = list(inputs)\n            self.inputs = list()\n")]),
    m('raw-output-assigned-not-appended', 'R3', 'append_output[', "        self.raw_output += raw_output\n", "        self.raw_output = raw_output\n"),
    m('context-gets-cumulative-output', 'R3', 'append_output[', "        context.output = raw_output\n", "        context.output = self.raw_output\n"),
    m('revert-fix-guard', 'R3', "append_output[prev='a\\n',new='']", "        if raw_output:\n            lines = raw_output.rstrip()", "        if self.raw_output:\n            lines = raw_output.rstrip()"),
    m('lines-not-rstripped', 'R3', 'append_output[', "            lines = [line.rstrip() for line in lines]\n", ""),
    m('split-without-rstrip', 'R3', 'append_output[', "            lines = raw_output.rstrip().split(\"\\n\")", "            lines = raw_output.split(\"\\n\")"),
    m('lines-inserted-at-front', 'R1', 'output:', "            self.output.extend(lines)", "            self.output[0:0] = lines"),
    m('output-reset-in-run', 'R1', 'raw_output:assign@Sandbox.run', "        self.target = None\n        self._execute(code, filename, SandboxContextKind.RUN, threaded)", "        self.target = None\n        self.raw_output = \"\"\n        self._execute(code, filename, SandboxContextKind.RUN, threaded)"),
    m('stop-mocking-records-empty', 'R2', '_stop_mocking', "        self.append_output(output, context)", "        self.append_output(\"\", context)"),
    m('stop-mocking-wrong-context', 'R2', '_stop_mocking', "        self.append_output(output, context)", "        self.append_output(output, self._context[0])"),
    m('buffer-reused', 'R2', '_start_mocking:fresh-buffer', "            captured_stdout = io.StringIO()", "            captured_stdout = self._shared_buffer"),
    m('pop-from-back', 'R4', 'input[', "                value_entered = self.inputs.pop(0)", "                value_entered = self.inputs.pop()"),
    m('prompt-not-echoed-when-empty', 'R4', 'input[queue=[]', "                # TODO: Make this smarter, more elegant in choosing IF we should repeat 0\n                print(prompt)\n", "                # TODO: Make this smarter, more elegant in choosing IF we should repeat 0\n"),
    m('input-not-consumed', 'R4', 'input[', "                value_entered = self.inputs.pop(0)", "                value_entered = self.inputs[0]"),
    m('default-is-empty-string', 'R4', 'input[queue=[]', "                value_entered = '0'", "                value_entered = ''"),
    m('inputs-recorded-in-first-context', 'R4', 'input[', "            self._context[-1].inputs.append(value_entered)", "            self._context[0].inputs.append(value_entered)"),
    m('tracker-not-installed', 'R4', 'installs-tracker', "        self.mock_function('input', self._track_inputs(context.inputs))\n", ""),
    m('queue-input-clears', 'R5', 'queue_input', "    sandbox.set_input(inputs, clear=False)", "    sandbox.set_input(inputs, clear=True)", file=CM),
    m('numbers-not-stringified', 'R5', 'set_input[5', "            self.inputs.append(str(inputs))", "            self.inputs.append(inputs)"),
    m('clear-ignored', 'R5', 'set_input[', "        if clear:\n            # A new list rather than", "        if clear and not self.inputs:\n            # A new list rather than"),
    m('list-inputs-reversed', 'R5', 'set_input[', "            self.inputs.extend([str(value) for value in inputs])", "            self.inputs.extend([str(value) for value in reversed(inputs)])"),
    m('clear_input-noop', 'R5', 'clear_input', "        self.set_input(None)\n        return self", "        return self"),
    dict(name='twin-append-output-rewritten', kind='twin',
         edits=[dict(file=SB, old="        if raw_output:\n            lines = raw_output.rstrip().split(\"\\n\")\n            lines = [line.rstrip() for line in lines]\n            self.output.extend(lines)",
                     new="        if not raw_output:\n            return\n        self.output.extend([line.rstrip() for line in raw_output.rstrip().split(\"\\n\")])")]),
    dict(name='twin-pop-front-del', kind='twin',
         edits=[dict(file=SB, old="                value_entered = self.inputs.pop(0)", new="                value_entered = self.inputs[0]\n                self.inputs.pop(0)")]),
]
