R = 'pedal/sandbox/result.py'

def m(name, rule, key, old, new, count=1):
    return dict(name=name, kind='mutant', rule=rule, key=key, edits=[dict(file=R, old=old, new=new, count=count)])

CASES = [
    # fix a4ea3f2: a proxied item in a proxied string
    m('revert-fix-contains-unwraps-item', 'R7', 'SandboxResult.__contains__[True,proxied item]',
      "        if isinstance(item, SandboxResult):\n            # A string only accepts an actual string on the left of `in`\n            item = item.value\n", ""),
    dict(name='twin-contains-unwraps-through-helper', kind='twin', edits=[dict(file=R,
         old="        if isinstance(item, SandboxResult):\n            # A string only accepts an actual string on the left of `in`\n            item = item.value\n        return item in self.value\n",
         new="        container, member = _unwrap_value_pair(self, item)\n        return member in container\n")]),
    dict(name='revert-fix-floor-explicit-dunder', kind='mutant', rule='R3', key='SandboxResult.__floor__:through-the-builtin',
         edits=[dict(file='pedal/sandbox/result.py', old="        return self._clone_this_result(math.floor(self.value))", new="        return self._clone_this_result(self.value.__floor__())")]),
    dict(name='twin-floor-not-rewrapped', kind='twin',
         edits=[dict(file='pedal/sandbox/result.py', old="        return self._clone_this_result(math.ceil(self.value))", new="        return math.ceil(self.value)")]),
    m('delete-rmod', 'R1', '__rmod__',
      "    def __rmod__(self, other):\n        left, right = _unwrap_value_pair(self, other)\n        return self._clone_this_result(right % left)\n\n", ""),
    m('revert-fix-rrshift', 'R1', '__rrshift__',
      "    def __rrshift__(self, other):\n        left, right = _unwrap_value_pair(self, other)\n        return self._clone_this_result(right >> left)\n\n", ""),
    m('delete-hash', 'R1', '__hash__', "    def __hash__(self):\n        return hash(self.value)\n\n", ""),
    m('print-in-getitem', 'R2', '__getitem__',
      "    def __getitem__(self, key):\n        return self._clone_this_result(self.value[key])",
      "    def __getitem__(self, key):\n        print('GETITEM', key)\n        return self._clone_this_result(self.value[key])"),
    m('stderr-write-in-helper', 'R2', 'unwrap_value',
      "    if is_sandbox_result(value):\n        return value._actual_value\n    else:\n        return value",
      "    if is_sandbox_result(value):\n        sys.stderr.write('unwrap')\n        return value._actual_value\n    else:\n        return value"),
    m('str-returns-clone', 'R3', '__str__', "        return str(self.value)\n", "        return self._clone_this_result(str(self.value))\n"),
    m('revert-fix-float', 'R3', '__float__', "        return float(self.value)\n", "        return self._clone_this_result(self.value.__float__())\n"),
    m('int-through-dunder', 'R3', '__int__', "        return int(self.value)\n", "        return self.value.__int__()\n"),
    m('revert-fix-complex', 'R3', '__complex__', "        return complex(self.value)\n", "        return self.value.__complex__()\n"),
    m('radd-wrong-operand-order', 'R4', '__rsub__', "        return self._clone_this_result(right - left)\n", "        return self._clone_this_result(left - right)\n"),
    m('old-style-explicit-dunder-mod', 'R4', '__mod__:',
      "    def __mod__(self, other):\n        left, right = _unwrap_value_pair(self, other)\n        return self._clone_this_result(left % right)\n",
      "    def __mod__(self, other):\n        left, right = _unwrap_value_pair(self, other)\n        result = left.__mod__(right)\n        if result == NotImplemented:\n            result = right.__rmod__(left)\n        return self._clone_this_result(result)\n"),
    m('old-style-reflected-radd', 'R4', '__radd__:',
      "    def __radd__(self, other):\n        left, right = _unwrap_value_pair(self, other)\n        return self._clone_this_result(right + left)\n",
      "    def __radd__(self, other):\n        left, right = _unwrap_value_pair(self, other)\n        if isinstance(left, str):\n            return self._clone_this_result(right.__add__(left))\n        result = left.__radd__(right)\n        if result == NotImplemented:\n            result = right.__add__(left)\n        return self._clone_this_result(result)\n"),
    m('xor-forgets-unwrap-of-other', 'R4', '__xor__',
      "    def __xor__(self, other):\n        left, right = _unwrap_value_pair(self, other)\n        return self._clone_this_result(left ^ right)\n",
      "    def __xor__(self, other):\n        return self._clone_this_result(self.value.__xor__(other))\n"),
    m('mul-returns-unwrapped-notimplemented', 'R4', '__mul__',
      "    def __mul__(self, other):\n        left, right = _unwrap_value_pair(self, other)\n        return self._clone_this_result(left * right)\n",
      "    def __mul__(self, other):\n        left, right = _unwrap_value_pair(self, other)\n        result = left.__mul__(right)\n        return self._clone_this_result(result)\n"),
    m('revert-fix-trunc', 'R5', 'math.truncate', "math.trunc(self.value)", "math.truncate(self.value)"),
    m('undefined-global-helper', 'R5', 'name:_unwrap_pair',
      "    def __or__(self, other):\n        left, right = _unwrap_value_pair(self, other)", "    def __or__(self, other):\n        left, right = _unwrap_pair(self, other)"),
    m('revert-fix-len', 'R6', 'len:', "    return _original_len(s)\n", "    return len(s)\n"),
    m('revert-fix-contains', 'R7', '__contains__', "        return item in self.value\n", "        return self.value.__contains__(item)\n"),
    m('iter-through-dunder', 'R7', '__iter__', "        return iter(self.value)\n", "        return self.value.__iter__()\n"),
    # twins
    dict(name='twin-operator-module', kind='twin',
         edits=[dict(file=R, old="import math\n", new="import math\nimport operator\n"),
                dict(file=R, old="        return self._clone_this_result(left + right)\n", new="        return self._clone_this_result(operator.add(left, right))\n")]),
    dict(name='twin-explicit-dunder-complete-protocol', kind='twin',
         edits=[dict(file=R, old="    def __sub__(self, other):\n        left, right = _unwrap_value_pair(self, other)\n        return self._clone_this_result(left - right)\n",
                     new="""    def __sub__(self, other):
        left, right = _unwrap_value_pair(self, other)
        result = NotImplemented
        if hasattr(left, '__sub__'):
            result = left.__sub__(right)
        if result is NotImplemented and hasattr(right, '__rsub__'):
            result = right.__rsub__(left)
        if result is NotImplemented:
            raise TypeError("unsupported operand type(s) for -")
        return self._clone_this_result(result)
""")]),
    dict(name='twin-len-via-builtins', kind='twin',
         edits=[dict(file=R, old="        return _original_len(self.value)\n", new="        return _original_len(self.value)  # exact int\n")]),
]
