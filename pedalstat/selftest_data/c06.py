SB = 'pedal/sandbox/sandbox.py'


def m(name, rule, key, old, new, file=SB):
    return dict(name=name, kind='mutant', rule=rule, key=key, edits=[dict(file=file, old=old, new=new)])


CASES = [
    m('revert-fix-repr-of-non-literals', 'R2', '_make_temporary[inf]',
      "        if len(repr(value)) <= self.MAXIMUM_TEMPORARY_LENGTH and _is_faithful_literal(repr(value), value):",
      "        if len(repr(value)) <= self.MAXIMUM_TEMPORARY_LENGTH:"),
    m('faithful-check-ignores-type', 'R2', '_make_temporary[',
      "        return type(rebuilt) is type(value) and bool(rebuilt == value)",
      "        return True"),
    m('temporary-holds-a-copy', 'R2', '_make_temporary[',
      "        self.data[key] = value\n        return key", "        self.data[key] = repr(value)\n        return key"),
    m('source-stripped-before-compile', 'R1', '_execute:compiles-the-text-given',
      "            compiled_code = compile(code, filename, 'exec')", "            compiled_code = compile(code.strip(), filename, 'exec')"),
    m('compiled-in-single-mode', 'R1', '_execute:compiles-the-text-given',
      "            compiled_code = compile(code, filename, 'exec')", "            compiled_code = compile(code, filename, 'single')"),
    m('main-name-not-set', 'R1', '_execute:executes-in-student-namespace',
      "        self.data['__name__'] = \"__main__\"\n", ""),
    m('run-strips-the-submission', 'R1', 'run:hands-over-the-submission-text',
      "            code = self.report.submission.files[filename]\n", "            code = self.report.submission.files[filename].strip()\n"),
    m('result-is-another-variable', 'R3', '_handle_result[',
      "            self.result = self.data[target]\n", "            self.result = list(self.data.values())[-1]\n"),
    m('future-import-in-the-sandbox-module', 'R1', 'compile-inherits-future',
      "import sys\nimport io\nimport types\n", "from __future__ import annotations\nimport sys\nimport io\nimport types\n"),
    m('compile-given-flags', 'R1', 'compile-flags',
      "            compiled_code = compile(code, filename, 'exec')", "            compiled_code = compile(code, filename, 'exec', 0x1000000)"),
    m('capture-buffer-translates-newlines', 'R5', 'buffer-keeps-text-verbatim',
      "            captured_stdout = io.StringIO()", "            captured_stdout = io.StringIO(newline=None)"),
    m('capture-buffer-starts-with-text', 'R5', 'buffer-keeps-text-verbatim',
      "            captured_stdout = io.StringIO()", "            captured_stdout = io.StringIO('> ')"),
    dict(name='twin-argument-text-cached-but-rechecked', kind='twin', edits=[
        dict(file=SB, old="        self._backup_variables = {}\n", new="        self._backup_variables = {}\n        self._texts = {}\n"),
        dict(file=SB, old="        if len(repr(value)) <= self.MAXIMUM_TEMPORARY_LENGTH and _is_faithful_literal(repr(value), value):\n            return repr(value)\n",
             new="        if id(value) not in self._texts:\n            self._texts[id(value)] = (value, repr(value))\n        text = self._texts[id(value)][1]\n        if len(text) <= self.MAXIMUM_TEMPORARY_LENGTH and _is_faithful_literal(text, value):\n            return text\n")]),
    dict(name='twin-future-import-with-dont_inherit', kind='twin', edits=[
        dict(file=SB, old="import sys\nimport io\nimport types\n", new="from __future__ import annotations\nimport sys\nimport io\nimport types\n"),
        dict(file=SB, old="            compiled_code = compile(code, filename, 'exec')", new="            compiled_code = compile(code, filename, 'exec', dont_inherit=True)"),
        dict(file=SB, old="        compiled_code = compile(code, filename, 'exec')\n        with self.trace.as_filename(filename, code):\n            exec(compiled_code, imported_module_data)", new="        compiled_code = compile(code, filename, 'exec', 0, True)\n        with self.trace.as_filename(filename, code):\n            exec(compiled_code, imported_module_data)")]),
    dict(name='twin-mandatory-future-import', kind='twin', edits=[
        dict(file=SB, old="import sys\nimport io\nimport types\n", new="from __future__ import print_function, division\nimport sys\nimport io\nimport types\n")]),
    dict(name='twin-capture-buffer-explicit-newline', kind='twin', edits=[dict(file=SB,
         old="            captured_stdout = io.StringIO()", new="            captured_stdout = io.StringIO(newline='\\n')")]),
    dict(name='twin-printing-buffer-given-console', kind='twin', edits=[dict(file=SB,
         old="            captured_stdout = PrintingStringIO()", new="            captured_stdout = PrintingStringIO(None, '', newline='')")]),
    dict(name='twin-compile-with-keywords', kind='twin', edits=[dict(file=SB,
         old="            compiled_code = compile(code, filename, 'exec')",
         new="            compiled_code = compile(code, filename=filename, mode='exec')")]),
    dict(name='twin-repr-computed-once', kind='twin', edits=[dict(file=SB,
         old="        if len(repr(value)) <= self.MAXIMUM_TEMPORARY_LENGTH and _is_faithful_literal(repr(value), value):\n            return repr(value)\n",
         new="        text = repr(value)\n        if len(text) <= self.MAXIMUM_TEMPORARY_LENGTH and _is_faithful_literal(text, value):\n            return text\n")]),
    dict(name='twin-everything-is-a-temporary', kind='twin', edits=[dict(file=SB,
         old="        if len(repr(value)) <= self.MAXIMUM_TEMPORARY_LENGTH and _is_faithful_literal(repr(value), value):\n            return repr(value)\n",
         new="")]),
]
