SB = 'pedal/sandbox/sandbox.py'


def m(name, rule, key, old, new, file=SB):
    return dict(name=name, kind='mutant', rule=rule, key=key, edits=[dict(file=file, old=old, new=new)])


CASES = [
    m('revert-fix-repr-of-non-literals', 'R2', '_make_temporary[inf]',
      "        if len(repr(value)) <= self.MAXIMUM_TEMPORARY_LENGTH and _is_faithful_literal(repr(value), value):",
      "        if len(repr(value)) <= self.MAXIMUM_TEMPORARY_LENGTH:"),
    m('faithful-check-ignores-type', 'R2', '_make_temporary[',
      "        return type(rebuilt) is type(value) and bool(rebuilt == value)",
      "        return True"),
    m('temporary-holds-a-copy', 'R2', '_make_temporary[',
      "        self.data[key] = value\n        return key", "        self.data[key] = repr(value)\n        return key"),
    m('source-stripped-before-compile', 'R1', '_execute:compiles-the-text-given',
      "            compiled_code = compile(code, filename, 'exec')", "            compiled_code = compile(code.strip(), filename, 'exec')"),
    m('compiled-in-single-mode', 'R1', '_execute:compiles-the-text-given',
      "            compiled_code = compile(code, filename, 'exec')", "            compiled_code = compile(code, filename, 'single')"),
    m('main-name-not-set', 'R1', '_execute:executes-in-student-namespace',
      "        self.data['__name__'] = \"__main__\"\n", ""),
    m('run-strips-the-submission', 'R1', 'run:hands-over-the-submission-text',
      "            code = self.report.submission.files[filename]\n", "            code = self.report.submission.files[filename].strip()\n"),
    m('result-is-another-variable', 'R3', '_handle_result[',
      "            self.result = self.data[target]\n", "            self.result = list(self.data.values())[-1]\n"),
    dict(name='twin-compile-with-keywords', kind='twin', edits=[dict(file=SB,
         old="            compiled_code = compile(code, filename, 'exec')",
         new="            compiled_code = compile(code, filename=filename, mode='exec')")]),
    dict(name='twin-repr-computed-once', kind='twin', edits=[dict(file=SB,
         old="        if len(repr(value)) <= self.MAXIMUM_TEMPORARY_LENGTH and _is_faithful_literal(repr(value), value):\n            return repr(value)\n",
         new="        text = repr(value)\n        if len(text) <= self.MAXIMUM_TEMPORARY_LENGTH and _is_faithful_literal(text, value):\n            return text\n")]),
    dict(name='twin-everything-is-a-temporary', kind='twin', edits=[dict(file=SB,
         old="        if len(repr(value)) <= self.MAXIMUM_TEMPORARY_LENGTH and _is_faithful_literal(repr(value), value):\n            return repr(value)\n",
         new="")]),
]
