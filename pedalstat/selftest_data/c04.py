SB = 'pedal/sandbox/sandbox.py'
FB = 'pedal/sandbox/feedbacks.py'
MK = 'pedal/sandbox/mocked.py'
TO = 'pedal/sandbox/timeout.py'

CASES = [
    # fix 62c49ac: a capture buffer the student closed
    dict(name='revert-fix-closed-stdout', kind='mutant', rule='R9', key='_stop_mocking[buffer closed by the student]',
         edits=[dict(file=SB, old="        try:\n            output = current_stdout.getvalue()\n        except ValueError:\n            # The student closed their standard output; nothing can be read back\n            output = \"\"\n        self.append_output(output, context)\n",
                     new="        self.append_output(current_stdout.getvalue(), context)\n")]),
    dict(name='twin-closed-stdout-tested-first', kind='twin',
         edits=[dict(file=SB, old="        try:\n            output = current_stdout.getvalue()\n        except ValueError:\n            # The student closed their standard output; nothing can be read back\n            output = \"\"\n",
                     new="        output = \"\"\n        try:\n            output = current_stdout.getvalue()\n        except (ValueError, OSError):\n            pass\n")]),
    # fix 6f5e45d: an exception class with an empty name
    dict(name='revert-fix-article-for-empty-name', kind='mutant', rule='R4', key="add_indefinite_article['']",
         edits=[dict(file='pedal/utilities/text.py', old="    if not phrase:\n        # Nothing to choose an article for (e.g., an exception class without a name)\n        return \"a \"+phrase\n", new="")]),
    dict(name='twin-article-guard-by-length', kind='twin',
         edits=[dict(file='pedal/utilities/text.py', old="    if not phrase:\n", new="    if len(phrase) == 0:\n")]),
    # round 12: tracers never swallow
    dict(name='call-tracer-swallows-bdbquit', kind='mutant', rule='R8', key='tracer[calls]=SandboxCallTracer:BdbQuit',
         edits=[dict(file='pedal/sandbox/tracer.py', old="        return isinstance(exc_type, BdbQuit)", new="        return exc_type is not None and issubclass(exc_type, BdbQuit)")]),
    # fix 12d227e: compile() on a text with a null byte gives a SyntaxError with no position, text or file name
    dict(name='revert-fix-made-up-frame-line-length', kind='mutant', rule='R7', key='compile-error[null byte,3.11/3.12,',
         edits=[dict(file='pedal/utilities/exceptions.py',
                     old="            line = frame._line if frame._line is not None else ''\n            end_offset = frame.end_colno+1 if frame.lineno == frame.end_lineno else len(line)\n",
                     new="            end_offset = frame.end_colno+1 if frame.lineno == frame.end_lineno else len(frame._line)\n            line = frame._line if frame._line is not None else ''\n")]),
    dict(name='revert-fix-made-up-frame-filename', kind='mutant', rule='R7', key='compile-error[null byte,3.11/3.12,TerminalFormatter]',
         edits=[dict(file='pedal/utilities/exceptions.py',
                     old='            filename = self.exception.filename if self.exception.filename is not None else "<string>"\n',
                     new='            filename = self.exception.filename\n')]),
    # where the missing name is supplied is not a clause: here the traceback text supplies it
    dict(name='twin-missing-filename-defaulted-when-rendered', kind='twin',
         edits=[dict(file='pedal/utilities/exceptions.py',
                     old='            filename = self.exception.filename if self.exception.filename is not None else "<string>"\n',
                     new='            filename = self.exception.filename\n'),
                dict(file='pedal/utilities/exceptions.py',
                     old='             f" of file {formatter.filename(frame.filename)}" +',
                     new='             f" of file {formatter.filename(frame.filename or \'the program\')}" +')]),
    dict(name='twin-made-up-frame-gets-empty-line', kind='twin',
         edits=[dict(file='pedal/utilities/exceptions.py',
                     old='                                   lineno, None, offset-1, end_lineno, end_offset-1)',
                     new='                                   lineno, "", offset-1, end_lineno, end_offset-1)')]),
    dict(name='revert-fix-str-guard-exception-only', kind='mutant', rule='R4', key='runtime_error.__init__:builds[str(exception)=raises SystemExit]',
         edits=[dict(file='pedal/sandbox/feedbacks.py', old="        except BaseException:\n            # A student-defined exception can have a broken __str__ (one that exits included)", new="        except Exception:\n            # A student-defined exception can have a broken __str__")]),
    dict(name='revert-fix-format_line-without-columns', kind='mutant', rule='R4', key='format_line[',
         edits=[dict(file='pedal/utilities/exceptions.py', old="        if frame.colno is None or frame.end_colno is None:", new="        if False:")]),
    dict(name='narrow-exception-handler', kind='mutant', rule='R1', key='Sandbox._execute',
         edits=[dict(file=SB, old="        except Exception as user_exception:\n            self._stop_mocking(context)",
                     new="        except ArithmeticError as user_exception:\n            self._stop_mocking(context)")]),
    dict(name='delete-systemexit-handler', kind='mutant', rule='R1', key='Sandbox._execute',
         edits=[dict(file=SB, old="""        except SystemExit as system_exit:
            self._stop_mocking(context)
            self._capture_exception(system_exit, sys.exc_info(),
                                    code, filename)
""", new="")]),
    dict(name='compile-hoisted-above-try', kind='mutant', rule='R1', key='Sandbox._execute',
         edits=[dict(file=SB, old="        self.data['__name__'] = \"__main__\"\n        try:\n            # TODO: Support CaitNode and Ast (needs skulpt to support compile better)\n            compiled_code = compile(code, filename, 'exec')\n",
                     new="        self.data['__name__'] = \"__main__\"\n        compiled_code = compile(code, filename, 'exec')\n        try:\n")]),
    dict(name='import-helper-called-from-run', kind='mutant', rule='R1', key='Sandbox._import',
         edits=[dict(file=SB, old="        if inputs is not None:\n            self.set_input(inputs)\n        if before is not None:",
                     new="        if inputs is not None:\n            self.set_input(inputs)\n        if before == 'module':\n            self._import(code, 'student', filename, threaded)\n        if before is not None:")]),
    dict(name='handler-captures-twice', kind='mutant', rule='R2', key=':captures',
         edits=[dict(file=SB, old="            self._capture_exception(user_exception, sys.exc_info(),\n                                    code, filename)\n",
                     new="            self._capture_exception(user_exception, sys.exc_info(),\n                                    code, filename)\n            self._capture_exception(user_exception, sys.exc_info(),\n                                    code, filename)\n")]),
    dict(name='systemexit-handler-silent', kind='mutant', rule='R2', key='raises SystemExit]:captures',
         edits=[dict(file=SB, old="            self._capture_exception(system_exit, sys.exc_info(),\n                                    code, filename)\n", new="            pass\n")]),
    dict(name='handler-reraises', kind='mutant', rule='R2', key='returns-normally',
         edits=[dict(file=SB, old="            self._capture_exception(user_exception, sys.exc_info(),\n                                    code, filename)\n",
                     new="            self._capture_exception(user_exception, sys.exc_info(),\n                                    code, filename)\n            raise\n")]),
    dict(name='capture-wrong-exception-arg', kind='mutant', rule='R2', key='args',
         edits=[dict(file=SB, old="self._capture_exception(system_exit, sys.exc_info(),", new="self._capture_exception(self.exception, sys.exc_info(),")]),
    dict(name='map-gains-nonruntime-class', kind='mutant', rule='R3', key='EXCEPTION_FF_MAP[LookupError]',
         edits=[dict(file=FB, old="    TimeoutError: timeout_error,\n}", new="    TimeoutError: timeout_error,\n    LookupError: FeedbackResponse,\n}")]),
    dict(name='map-row-describes-other-error', kind='mutant', rule='R3', key='describes',
         edits=[dict(file=FB, old="    NameError: name_error,", new="    NameError: value_error,")]),
    dict(name='runtime-class-category-changed', kind='mutant', rule='R3', key='index_error.category',
         edits=[dict(file=FB, old='    """ Runtime IndexError """\n    title = "Index Error"', new='    """ Runtime IndexError """\n    title = "Index Error"\n    category = FeedbackResponse.CATEGORIES.ALGORITHMIC')]),
    dict(name='dispatch-default-dropped', kind='mutant', rule='R3', key='one-constructor-call',
         edits=[dict(file=SB, old="EXCEPTION_FF_MAP.get(type(self.exception),\n                                                      runtime_error)",
                     new="EXCEPTION_FF_MAP.get(type(self.exception))")]),
    dict(name='feedback-only-for-student-files', kind='mutant', rule='R3', key='one-constructor-call',
         edits=[dict(file=SB, old="        self.feedback = runtime_error_function(exception=self.exception, context=[context],\n                                               traceback=traceback, location=traceback.line_number,\n                                               report=self.report, priority=priority)\n        self.exception.feedback = self.feedback",
                     new="        if priority == FeedbackCategory.RUNTIME:\n            self.feedback = runtime_error_function(exception=self.exception, context=[context],\n                                                   traceback=traceback, location=traceback.line_number,\n                                                   report=self.report, priority=priority)\n            self.exception.feedback = self.feedback")]),
    dict(name='extra-feedback-while-recording', kind='mutant', rule='R3', key='extra-feedback',
         edits=[dict(file=SB, old="        self.exception.feedback = self.feedback\n        return False",
                     new="        self.exception.feedback = self.feedback\n        runtime_error(exception=self.exception, context=[context], traceback=traceback,\n                      location=None, report=self.report)\n        return False")]),
    dict(name='revert-fix-str-guard', kind='mutant', rule='R4', key='str(exception)',
         edits=[dict(file=FB, old="""        try:
            exception_message = str(exception)
        except BaseException:
            # A student-defined exception can have a broken __str__ (one that exits included)
            exception_message = "<exception str() failed>"
""", new="        exception_message = str(exception)\n")]),
    dict(name='fstring-of-exception-in-capture', kind='mutant', rule='R4', key='f-string',
         edits=[dict(file=SB, old="        self.exception = improve_builtin_exceptions(exception)\n",
                     new="        self.exception = improve_builtin_exceptions(exception)\n        self._last_error_text = f\"{exception}\"\n")]),
    dict(name='template-interpolates-raw-exception', kind='mutant', rule='R4', key='message_template',
         edits=[dict(file=FB, old='        "{exception_message}\\n\\n"\n', new='        "{exception}\\n\\n"\n')]),
    dict(name='repr-in-traceback-init', kind='mutant', rule='R4', key='repr(',
         edits=[dict(file='pedal/utilities/exceptions.py', old="        self.exception = exception\n        self.exc_info = exc_info",
                     new="        self.exception = exception\n        self.description = repr(exception)\n        self.exc_info = exc_info")]),
    dict(name='exec-not-blocked', kind='mutant', rule='R5', key='blocked:exec',
         edits=[dict(file=SB, old="        self.block_function('exec')\n", new="")]),
    dict(name='open-not-mocked', kind='mutant', rule='R5', key='mocked:open',
         edits=[dict(file=SB, old="        self.mock_function('open', mocked.create_open_function(self.report))\n", new="")]),
    dict(name='pedal-not-blocked', kind='mutant', rule='R5', key='blocked-module:pedal',
         edits=[dict(file=SB, old="        self.block_module('pedal')\n", new="")]),
    dict(name='disabled-builtin-raises-baseexception', kind='mutant', rule='R5', key='raises',
         edits=[dict(file=MK, old="class FunctionNotAllowed(Exception):", new="class FunctionNotAllowed(BaseException):")]),
    dict(name='false-entries-ignored', kind='mutant', rule='R5', key='_mock_builtins',
         edits=[dict(file=SB, old="            elif value is False:\n                data['__builtins__'][name] = mocked.disabled_builtin(name)\n                data[name] = mocked.disabled_builtin(name)",
                     new="            elif value is False:\n                data[name] = mocked.disabled_builtin(name)")]),
    dict(name='clear_mocks-default-false', kind='mutant', rule='R5', key='clear_mocks',
         edits=[dict(file=SB, old="def clear_mocks(self, reset_default_mocks=True):", new="def clear_mocks(self, reset_default_mocks=False):")]),
    dict(name='import-refusal-only-toplevel', kind='mutant', rule='R5', key='_restricted_import:pedal',
         edits=[dict(file=MK, old="if module_name == 'pedal' or module_name.startswith('pedal.'):", new="if module_name == 'pedal':")]),
    dict(name='thread-run-unguarded', kind='mutant', rule='R6', key='InterruptableThread.run',
         edits=[dict(file=TO, old="        try:\n            self.result = self.func(*self.args, **self.kwargs)\n        except Exception:\n            self.exc_info = sys.exc_info()",
                     new="        self.result = self.func(*self.args, **self.kwargs)")]),
    # twins
    dict(name='twin-merged-handlers', kind='twin',
         edits=[dict(file=SB, old="""        except Exception as user_exception:
            self._stop_mocking(context)
            self._capture_exception(user_exception, sys.exc_info(),
                                    code, filename)
        # NOTE: https://docs.python.org/3/library/exceptions.html#SystemExit
        # This exception does not inherit from Exception and has to be caught separately
        except SystemExit as system_exit:
            self._stop_mocking(context)
            self._capture_exception(system_exit, sys.exc_info(),
                                    code, filename)
""", new="""        except (Exception, SystemExit) as user_exception:
            self._stop_mocking(context)
            self._capture_exception(user_exception, sys.exc_info(),
                                    code, filename)
""")]),
    dict(name='twin-safe_str-helper', kind='twin',
         edits=[dict(file=FB, old="""        try:
            exception_message = str(exception)
        except BaseException:
            # A student-defined exception can have a broken __str__ (one that exits included)
            exception_message = "<exception str() failed>"
""", new="""        exception_message = safe_str(exception)
"""), dict(file=FB, old="class runtime_error(FeedbackResponse):", new="""def safe_str(value):
    try:
        return str(value)
    except BaseException:
        return "<exception str() failed>"


class runtime_error(FeedbackResponse):""")]),
    dict(name='twin-extra-runtime-row', kind='twin',
         edits=[dict(file=FB, old="    TimeoutError: timeout_error,\n}", new="    TimeoutError: timeout_error,\n    RecursionError: runtime_error,\n}")]),
]
