SE = 'pedal/source/sections.py'
TC = 'pedal/tifa/tifa_core.py'
UX = 'pedal/utilities/exceptions.py'
SB = 'pedal/sandbox/sandbox.py'
AS = 'pedal/assertions/setup.py'
RC = 'pedal/resolvers/core.py'

def m(name, rule, key, file, old, new):
    return dict(name=name, kind='mutant', rule=rule, key=key, edits=[dict(file=file, old=old, new=new)])

CASES = [
    dict(name='revert-fix-stale-offset-stop_sections', kind='mutant', rule='R4', key='stop_sections:no-stale-offset',
         edits=[dict(file='pedal/source/sections.py', old="    # The whole file is back, so its lines are no longer shifted\n    report.submission.clear_line_offsets()\n", new="")]),
    dict(name='revert-fix-stale-offset-next_section', kind='mutant', rule='R3', key=':no-stale-offset',
         edits=[dict(file='pedal/source/sections.py', old="    # The whole file is back (until the next section is cut out below), so its lines are not shifted\n    report.submission.clear_line_offsets()\n", new="")]),
    dict(name='twin-offset-reset-to-zero', kind='twin',
         edits=[dict(file='pedal/source/sections.py', old="    # The whole file is back, so its lines are no longer shifted\n    report.submission.clear_line_offsets()\n", new="    report.submission.set_line_offset(0)\n")]),
    dict(name='revert-fix-stop_group', kind='mutant', rule='R3', key='', edits=[dict(file='pedal/core/report.py',
         old="        if group in self.groups:\n            self.groups.remove(group)", new="        if self.groups:\n            self.groups.remove(group)")]),
    m('marker-partly-captured', 'R1', 'whole-match-captured', SE, "DEFAULT_SECTION_PATTERN = r'^(##### Part .+)$'", "DEFAULT_SECTION_PATTERN = r'^##### Part (.+)$'"),
    m('marker-no-group', 'R1', 'whole-match-captured', SE, "DEFAULT_SECTION_PATTERN = r'^(##### Part .+)$'", "DEFAULT_SECTION_PATTERN = r'^##### Part .+$'"),
    m('marker-two-groups', 'R1', 'whole-match-captured', SE, "DEFAULT_SECTION_PATTERN = r'^(##### Part .+)$'", "DEFAULT_SECTION_PATTERN = r'^(##### Part (.+))$'"),
    m('split-without-multiline', 'R1', 'separate_into_sections:split', SE, "re.split(pattern, report.submission.main_code, flags=re.MULTILINE)", "re.split(pattern, report.submission.main_code)"),
    m('split-stripped-code', 'R1', 'separate_into_sections:split', SE, "re.split(pattern, report.submission.main_code, flags=re.MULTILINE)", "re.split(pattern, report.submission.main_code.strip(), flags=re.MULTILINE)"),
    m('tifa-locate-without-offset', 'R2', 'tifa:line_offset-source', TC, "        return Location(node.lineno+self.line_offset, col=node.col_offset)", "        return Location(node.lineno, col=node.col_offset)"),
    m('frames-not-shifted', 'R2', '_fix_frame_line', UX, "            frame.lineno += self.line_offsets[frame.filename]\n", ""),
    m('revert-fix-line-number', 'R2', 'traceback:line_number', UX, "        self.line_number = last_frame[1] + line_offsets.get(last_frame[0], 0)", "        self.line_number = last_frame[1]"),
    m('sandbox-empty-offsets', 'R2', 'sandbox:passes-offsets', SB, "            line_offsets = self.report.submission.line_offsets\n", ""),
    m('sandbox-location-from-context', 'R2', 'sandbox:location', SB, "traceback=traceback, location=traceback.line_number,", "traceback=traceback, location=1,"),
    m('offset-without-minus-one', 'R3', 'next_section[', SE, "            report.submission.set_line_offset(len(old_code.split(\"\\n\"))-1)", "            report.submission.set_line_offset(len(old_code.split(\"\\n\")))"),
    m('revert-fix-found', 'R3', 'next_section[', SE, "    found = _calculate_section_number(len(source['sections']) - 1)", "    found = _calculate_section_number(len(source['sections']))"),
    m('bounds-strict', 'R3', 'next_section[', SE, "    if section_number <= found:", "    if section_number < found:"),
    m('cumulative-excludes-chunk', 'R3', 'cumulative', SE, "            new_code = ''.join(sections[:section_index + 1])", "            new_code = ''.join(sections[:section_index])"),
    m('independent-takes-marker', 'R3', 'independent', SE, "            new_code = ''.join(sections[section_index])", "            new_code = ''.join(sections[section_index - 1])"),
    m('advance-by-one', 'R3', 'next_section[', SE, "    source['section'] += 2", "    source['section'] += 1"),
    m('stop-restores-code-only-of-last-section', 'R4', 'stop_sections:restores', SE, "    report.submission.replace_main(old_submission.code, old_submission.filename)\n    # The whole file is back, so its lines are no longer shifted\n", "    # The whole file is back, so its lines are no longer shifted\n"),
    m('hook-event-misspelt', 'R4', 'hook:pedal.resolver.resolve', SE, "    report.add_hook('pedal.resolvers.resolve', stop_any_sections)", "    report.add_hook('pedal.resolver.resolve', stop_any_sections)"),
    m('trigger-renamed', 'R4', 'hook:pedal.resolvers.resolve', RC, "        report.execute_hooks('pedal.resolvers', 'resolve')", "        report.execute_hooks('pedal.resolvers', 'resolving')"),
    m('assertions-hook-misspelt', 'R4', 'hook:source.next_section.start', AS, "        report.add_hook('source.next_section.before', resolve_all)", "        report.add_hook('source.next_section.start', resolve_all)"),
    m('backup-after-replace', 'R4', 'backup', SE, "    backup = Substitution(report.submission.main_code, report.submission.main_file)\n    report[TOOL_NAME]['substitutions'].append(backup)\n    report.submission.replace_main(report[TOOL_NAME]['sections'][0])",
      "    report.submission.replace_main(report[TOOL_NAME]['sections'][0])\n    backup = Substitution(report.submission.main_code, report.submission.main_file)\n    report[TOOL_NAME]['substitutions'].append(backup)"),
    dict(name='twin-offset-by-count', kind='twin',
         edits=[dict(file=SE, old="            report.submission.set_line_offset(len(old_code.split(\"\\n\"))-1)", new="            report.submission.set_line_offset(old_code.count(\"\\n\"))")]),
    dict(name='twin-found-other-formula', kind='twin',
         edits=[dict(file=SE, old="    found = _calculate_section_number(len(source['sections']) - 1)", new="    found = int((len(source['sections']) - 1) / 2)")]),
]
