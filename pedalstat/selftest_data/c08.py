OPS = 'pedal/utilities/operators.py'
FIND = 'pedal/cait/find_node.py'
STATIC = 'pedal/assertions/static.py'
NODE = 'pedal/cait/cait_node.py'
MATCH = 'pedal/cait/stretchy_tree_matching.py'

CASES = [
    dict(name='revert-fix-cache-hit-keeps-stale-success', kind='mutant', rule='R8', key='reparse_if_needed[',
         edits=[dict(file='pedal/cait/cait_api.py', old="        cait['error'] = errors.get(student_code)\n        cait['success'] = cait['error'] is None\n        return cait", new="        return cait")]),
    dict(name='source-tree-keeps-stale-success', kind='mutant', rule='R8', key='reparse_if_needed[',
         edits=[dict(file='pedal/cait/cait_api.py', old="        student_ast = report[SOURCE_TOOL_NAME]['ast']\n        cait['success'] = True\n        cait['error'] = None", new="        student_ast = report[SOURCE_TOOL_NAME]['ast']")]),
    dict(name='plus-row-says-Sub', kind='mutant', rule='R1', key="BIN_OP_NAMES['+']",
         edits=[dict(file=OPS, old='"+": "Add"', new='"+": "Sub"')]),
    dict(name='revert-fix-LtE', kind='mutant', rule='R1', key="COMPARE_OP_NAMES['<=']",
         edits=[dict(file=OPS, old='"<=": "LtE"', new='"<=": "Lte"')]),
    dict(name='revert-fix-shift', kind='mutant', rule='R1', key="BIN_OP_NAMES['>>']",
         edits=[dict(file=OPS, old='">>": "RShift"', new='">>": "LShift"')]),
    dict(name='drop-row-not-in', kind='mutant', rule='R1', key="'not in'",
         edits=[dict(file=OPS, old='    "not in": "NotIn",\n', new='')]),
    dict(name='compare-table-walks-BinOp', kind='mutant', rule='R3', key="find_operation('==')",
         edits=[dict(file=FIND, old='root.find_all("Compare")', new='root.find_all("BinOp")')]),
    dict(name='binop-arm-no-equality', kind='mutant', rule='R3', key="find_operation('+')",
         edits=[dict(file=FIND, old='if binop.op_name == BIN_OP_NAMES[op_name]:', new='if binop.op_name:')]),
    dict(name='compare-only-first-op', kind='mutant', rule='R3', key="find_operation('<')",
         edits=[dict(file=FIND, old='            for op in compare.ops:\n                if op.ast_name == COMPARE_OP_NAMES[op_name]:\n                    found.append(compare)',
                     new='            op = compare.ops[0]\n            if op.ast_name == COMPARE_OP_NAMES[op_name]:\n                found.append(compare)')]),
    dict(name='symbol-in-two-tables', kind='mutant', rule='R3', key='disjoint',
         edits=[dict(file=OPS, old='BOOL_OP_NAMES = {"and": "And", "or": "Or"}', new='BOOL_OP_NAMES = {"and": "And", "or": "Or", "not": "Not"}')]),
    dict(name='calls-match-attr-by-value-id', kind='mutant', rule='R3', key='find_function_calls',
         edits=[dict(file=FIND, old='if a_call.func.attr == name:', new='if a_call.func.value == name:')]),
    dict(name='ensure-threshold-ge', kind='mutant', rule='R4', key='EnsureAssertionFeedback',
         edits=[dict(file=STATIC, old='if at_least > use_count:', new='if at_least >= use_count:')]),
    dict(name='prevent-threshold-le', kind='mutant', rule='R4', key='PreventAssertionFeedback',
         edits=[dict(file=STATIC, old='if use_count and at_most < use_count:', new='if use_count and at_most <= use_count:')]),
    dict(name='prevent-nonzero-threshold-never-fires', kind='mutant', rule='R4', key='PreventAssertionFeedback',
         edits=[dict(file=STATIC, old="""                self.fields['capacity'] = (f" more than {at_most} times, but"
                                           f" you used it {use_count} times")
                return True""", new="""                self.fields['capacity'] = (f" more than {at_most} times, but"
                                           f" you used it {use_count} times")
                return False""")]),
    dict(name='count-stored-off-by-one', kind='mutant', rule='R4', key=':count',
         edits=[dict(file=STATIC, old="self.fields[field_name] = use_count = len(uses)\n        if at_least > use_count:",
                     new="use_count = len(uses)\n        self.fields[field_name] = use_count + 1\n        if at_least > use_count:")]),
    dict(name='prevent_ast-counts-names', kind='mutant', rule='R5', key='ensure_ast/prevent_ast',
         edits=[dict(file=STATIC, old="""        uses = list(self.fields['root'].find_all(name))
        if uses:
            self.update_location(Location.from_ast(uses[-1]))
        return self._check_usage('use_count', uses)


class ensure_ast""", new="""        uses = list(self.fields['root'].find_all("Name"))
        if uses:
            self.update_location(Location.from_ast(uses[-1]))
        return self._check_usage('use_count', uses)


class ensure_ast""")]),
    dict(name='ensure_import-not-negated', kind='mutant', rule='R5', key='ensure_import',
         edits=[dict(file=STATIC, old="        return not has_import(ast, name)", new="        return has_import(ast, name)")]),
    dict(name='num-includes-bool', kind='mutant', rule='R6', key="find_all('Num')",
         edits=[dict(file=NODE, old="isinstance(node.value, (int, float)) and not isinstance(node.value, bool):",
                     new="isinstance(node.value, (int, float)):")]),
    dict(name='str-also-bytes', kind='mutant', rule='R6', key="find_all('Str')",
         edits=[dict(file=NODE, old="actual_node == 'Str' and isinstance(node.value, str)",
                     new="actual_node == 'Str' and isinstance(node.value, (str, bytes))")]),
    dict(name='revert-fix-typed-equality', kind='mutant', rule='R7', key='pattern literal 1 against student literal True',
         edits=[dict(file=MATCH, old="""                        is_match = (type(inssub_value) is type(stdsub_value) and
                                    inssub_value == stdsub_value)""",
                     new="""                        is_match = inssub_value == stdsub_value""")]),
    dict(name='ast_name-returns-field', kind='mutant', rule='R2', key='ast_name',
         edits=[dict(file=NODE, old="        if key == 'ast_name':\n            return node_name", new="        if key == 'ast_name':\n            return self.field")]),
    dict(name='get_ast_name-lowercases', kind='mutant', rule='R2', key='ast_name',
         edits=[dict(file=NODE, old="        return type(node).__name__\n", new="        return type(node).__name__.lower()\n", count=1)]),
    # benign twins
    dict(name='twin-typed-equality-tuple-form', kind='twin',
         edits=[dict(file=MATCH, old="""                        is_match = (type(inssub_value) is type(stdsub_value) and
                                    inssub_value == stdsub_value)""",
                     new="""                        is_match = (type(inssub_value), inssub_value) == (type(stdsub_value), stdsub_value)""")]),
    dict(name='revert-fix-steal-only-matching-text', kind='mutant', rule='R8', key='reparse_if_needed[verify(OTHER),None',
         edits=[dict(file='pedal/cait/cait_api.py',
                     old="    if (use_source_tool and report[SOURCE_TOOL_NAME]['success']\n            and report[SOURCE_TOOL_NAME].get('ast_source') == student_code):",
                     new="    if use_source_tool and report[SOURCE_TOOL_NAME]['success']:")]),
    dict(name='verify-forgets-which-text-it-parsed', kind='mutant', rule='R8', key='reparse_if_needed[',
         edits=[dict(file='pedal/source/source.py', old="    report[TOOL_NAME]['ast_source'] = code\n", new="    report[TOOL_NAME]['ast_source'] = report.submission.main_code\n")]),
    dict(name='tree-memoised-by-file-name', kind='mutant', rule='R8', key='replace(MAIN2)',
         edits=[dict(file='pedal/cait/cait_api.py', old="    # Have we already parsed this code?\n    if student_code in cait['cache']:",
                     new="    # Have we already parsed this code?\n    if use_source_tool and report.submission.main_file in cait['cache']:\n        student_code = report.submission.main_file\n    if student_code in cait['cache']:"),
                dict(file='pedal/cait/cait_api.py', old="    cait['ast'] = cait['cache'][student_code] = CaitNode(student_ast, report=report)\n    return cait",
                     new="    cait['ast'] = cait['cache'][student_code] = CaitNode(student_ast, report=report)\n    if use_source_tool:\n        cait['cache'][report.submission.main_file] = cait['ast']\n    return cait")]),
    dict(name='twin-never-steal-always-parse', kind='twin',
         edits=[dict(file='pedal/cait/cait_api.py',
                     old="    if (use_source_tool and report[SOURCE_TOOL_NAME]['success']\n            and report[SOURCE_TOOL_NAME].get('ast_source') == student_code):",
                     new="    if False:")]),
    dict(name='twin-steal-for-explicit-code-of-the-same-text', kind='twin',
         edits=[dict(file='pedal/cait/cait_api.py',
                     old="    if (use_source_tool and report[SOURCE_TOOL_NAME]['success']\n            and report[SOURCE_TOOL_NAME].get('ast_source') == student_code):",
                     new="    if report[SOURCE_TOOL_NAME]['success'] and report[SOURCE_TOOL_NAME].get('ast_source') == student_code:")]),
    dict(name='twin-threshold-rewritten', kind='twin',
         edits=[dict(file=STATIC, old='if at_least > use_count:', new='if use_count < at_least:')]),
    dict(name='twin-prevent-threshold-rewritten', kind='twin',
         edits=[dict(file=STATIC, old='if use_count and at_most < use_count:', new='if use_count > at_most:')]),
    dict(name='twin-tables-reordered', kind='twin',
         edits=[dict(file=OPS, old='    "==": "Eq",\n    "<": "Lt",\n', new='    "<": "Lt",\n    "==": "Eq",\n')]),
    dict(name='twin-get_ast_name-inlined', kind='twin',
         edits=[dict(file=NODE, old="        node_name = CaitNode.get_ast_name(self.astNode)\n        if node_name == \"Assign\" and key == \"target\":",
                     new="        node_name = type(self.astNode).__name__\n        if node_name == \"Assign\" and key == \"target\":")]),
]
