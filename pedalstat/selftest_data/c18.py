TV = 'pedal/tifa/tifa_visitor.py'
TC = 'pedal/tifa/tifa_core.py'
CM = 'pedal/tifa/commands.py'
NT = 'pedal/types/new_types.py'
BI = 'pedal/types/builtin.py'

def m(name, rule, key, file, old, new):
    return dict(name=name, kind='mutant', rule=rule, key=key, edits=[dict(file=file, old=old, new=new)])

CASES = [
    m('revert-fix-bytes-constant', 'R1c', "visit_Constant(b'b')", 'pedal/types/normalize.py',
      "    if isinstance(value, (bytes, type(Ellipsis))):\n        # No Pedal type models these literals; they are unknown values, not instances of a class to look up by name\n        return AnyType()\n", ""),
    dict(name='twin-bytes-constant-typed-early', kind='twin', edits=[dict(file='pedal/types/normalize.py',
         old="    if isinstance(value, complex):\n        return NumType()\n",
         new="    if isinstance(value, complex):\n        return NumType()\n    if isinstance(value, bytes) or value is Ellipsis:\n        return AnyType()\n")]),
    m('narrow-traverse-handler', 'R1', 'never-raises', TV,
      "            self.process_ast(ast_tree)\n        except Exception as error:", "            self.process_ast(ast_tree)\n        except (TypeError, ValueError) as error:"),
    m('parse-handler-only-syntax', 'R1', 'never-raises', TV,
      "            ast_tree = ast.parse(code, filename)\n        except Exception as error:", "            ast_tree = ast.parse(code, filename)\n        except SyntaxError as error:"),
    m('traverse-outside-try', 'R1', 'never-raises', TV,
      "        try:\n            self.process_ast(ast_tree)\n        except Exception as error:\n            self.analysis.fail(error)\n            system_error(TOOL_NAME, message=\"Successfully parsed but could not \"\n                                    \"process AST: \" + str(error),\n                         report=self.report)",
      "        self.process_ast(ast_tree)"),
    m('handler-does-not-fail-analysis', 'R1', 'handler@traverse', TV,
      "        except Exception as error:\n            self.analysis.fail(error)\n            system_error(TOOL_NAME, message=", "        except Exception as error:\n            system_error(TOOL_NAME, message="),
    m('cache-store-removed', 'R2', 'cached=False', CM,
      "    report[TIFA_TOOL_NAME]['analyses'][code] = result\n", ""),
    m('cache-lookup-after-analysis', 'R2', 'cached=True', CM,
      "    if code in report[TIFA_TOOL_NAME]['analyses']:\n        return report[TIFA_TOOL_NAME]['analyses'][code]\n    result = report[TIFA_TOOL_NAME]['instance'].process_code(code)",
      "    result = report[TIFA_TOOL_NAME]['instance'].process_code(code)\n    if code in report[TIFA_TOOL_NAME]['analyses']:\n        return report[TIFA_TOOL_NAME]['analyses'][code]"),
    m('cache-keyed-by-constant', 'R2', 'tifa_analysis[', CM,
      "    report[TIFA_TOOL_NAME]['analyses'][code] = result\n", "    report[TIFA_TOOL_NAME]['analyses']['latest'] = result\n"),
    m('misspelt-helper-in-rare-branch', 'R3', 'self-attr:Tifa._visit_collection_loopp', TV,
      "        if isinstance(op, (ast.Eq, ast.NotEq, ast.Is, ast.IsNot)):\n                continue",
      "        if isinstance(op, (ast.Eq, ast.NotEq, ast.Is, ast.IsNot)):\n                continue\n            elif isinstance(op, ast.MatMult):\n                self._visit_collection_loopp(node)"),
    m('undefined-type-name', 'R3', 'name:FrozenSetTyp', TV,
      "    def visit_Set(self, node):\n        # Fun fact, it's impossible to make a literal empty set\n        if not node.elts:\n            return SetType(True)",
      "    def visit_Set(self, node):\n        # Fun fact, it's impossible to make a literal empty set\n        if not node.elts:\n            return FrozenSetTyp(True)"),
    m('feedback-constructor-missing-arg', 'R3', 'arity:', TV,
      "            self._issue(incompatible_types(self.locate(), operation, left, right, report=self.report))\n        return new_target_type",
      "            self._issue(incompatible_types(self.locate(), operation, left, report=self.report))\n        return new_target_type"),
    m('type-constructor-extra-arg', 'R3', 'arity:', TV,
      "        return BoolType()\n\n    def visit_BoolOp", "        return BoolType(node)\n\n    def visit_BoolOp"),
    m('visitor-name-typo', 'R3', 'visitor:visit_Subscritp', TV, "    def visit_Subscript(self, node):", "    def visit_Subscritp(self, node):"),
    m('revert-fix-sorted', 'R4', "FunctionType('sorted'):definition", BI, "FunctionType('sorted', returns='identity')", "FunctionType('sorted', definition='identity')"),
    m('revert-fix-bit_length', 'R4', 'bit_length', NT, 'FunctionType("bit_length", returns=IntType)', 'FunctionType("bit_length", definition=IntType)'),
    m('unknown-returns-shorthand', 'R4', "FunctionType('max'):returns", BI, "FunctionType('max', returns='element')", "FunctionType('max', returns='elements')"),
    m('issues-in-set-order', 'R5', 'set-iteration', TC,
      "        path_id = self.path_chain[0]\n        for name in self.name_map[path_id]:\n            if self.in_scope(name, self.scope_chain):\n                state = self.name_map[path_id][name]\n                if state.over == 'yes':",
      "        path_id = self.path_chain[0]\n        for name in set(self.name_map[path_id]):\n            if self.in_scope(name, self.scope_chain):\n                state = self.name_map[path_id][name]\n                if state.over == 'yes':"),
    dict(name='twin-cache-setdefault', kind='twin',
         edits=[dict(file=CM, old="    if code in report[TIFA_TOOL_NAME]['analyses']:\n        return report[TIFA_TOOL_NAME]['analyses'][code]\n    result = report[TIFA_TOOL_NAME]['instance'].process_code(code)\n    report[TIFA_TOOL_NAME]['analyses'][code] = result\n",
                     new="    cache = report[TIFA_TOOL_NAME]['analyses']\n    if code in cache:\n        return cache[code]\n    result = report[TIFA_TOOL_NAME]['instance'].process_code(code)\n    cache[code] = result\n")]),
    dict(name='twin-single-try', kind='twin',
         edits=[dict(file=TV, old="        except Exception as error:\n            self.analysis.fail(error)\n            system_error(TOOL_NAME, message=\"Successfully parsed but could not \"\n                                    \"process AST: \" + str(error),\n                         report=self.report)",
                     new="        except BaseException as error:\n            self.analysis.fail(error)\n            system_error(TOOL_NAME, message=\"Successfully parsed but could not \"\n                                    \"process AST: \" + str(error),\n                         report=self.report)")]),
]
