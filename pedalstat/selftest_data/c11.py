ST = 'pedal/cait/stretchy_tree_matching.py'


def m(name, rule, key, old, new, file=ST):
    return dict(name=name, kind='mutant', rule=rule, key=key, edits=[dict(file=file, old=old, new=new)])


CASES = [
    m('search-only-first-child', 'R1', 'any_node_match[',
      "        for std_child in std_node.children:\n            matching_c = self.any_node_match(",
      "        for std_child in std_node.children[:1]:\n            matching_c = self.any_node_match("),
    m('search-stops-at-first-root-match', 'R1', 'any_node_match[root+a21]',
      "        else:\n            matching = []\n        #    return matching  # return it",
      "            return matching\n        else:\n            matching = []\n        #    return matching  # return it"),
    m('deeper-matches-replace-earlier-ones', 'R1', 'any_node_match[',
      "                matching = matching + matching_c", "                matching = matching_c"),
    m('search-does-not-recurse', 'R1', 'any_node_match[',
      "            matching_c = self.any_node_match(ins_node, std_child, check_meta=check_meta, cut=cut, use_previous=use_previous)",
      "            matching_c = self.deep_find_match(ins_node, std_child, check_meta, use_previous=use_previous)"),
    m('wildcard-only-matches-names', 'R2', 'deep_find_match_Name[___ vs ',
      "        elif match[_WILD] and meta_matched:  # if wild card, don't care",
      "        elif match[_WILD] and meta_matched and type(std_node.astNode).__name__ == \"Name\":"),
    m('expression-placeholder-not-bound', 'R2', 'deep_find_match_Name[__expr__ vs ',
      "            mapping.merge_map_with(use_previous)\n            mapping.add_exp_to_sym_table(ins_node, std_node)\n            matched = True\n        elif match[_WILD]",
      "            mapping.merge_map_with(use_previous)\n            matched = True\n        elif match[_WILD]"),
    m('expression-placeholder-bound-to-pattern', 'R2', 'deep_find_match_Name[__expr__ vs ',
      "            mapping.merge_map_with(use_previous)\n            mapping.add_exp_to_sym_table(ins_node, std_node)\n            matched = True\n        elif match[_WILD]",
      "            mapping.merge_map_with(use_previous)\n            mapping.add_exp_to_sym_table(ins_node, ins_node)\n            matched = True\n        elif match[_WILD]"),
    m('wildcard-ignores-position', 'R2', 'deep_find_match_Name[___ vs Name (other position)]',
      "        elif match[_WILD] and meta_matched:  # if wild card, don't care",
      "        elif match[_WILD]:  # if wild card, don't care"),
    m('revert-fix-exp-key-of-attribute', 'R6', 'shallow_symbol_handler[Attribute.attr=__e__]',
      "        key = ast_node.id if hasattr(ast_node, 'id') else ast_node._id\n        self.exp_table[key] = std_node",
      "        self.exp_table[ast_node.id] = std_node", file='pedal/cait/ast_map.py'),
    m('window-starts-after-first-surviving-sibling', 'R3', 'sibling-search[',
      "        youngest_sib = run_sibs[0]\n", "        youngest_sib = run_sibs[-1]\n"),
    m('window-never-moves-back-for-later-bases', 'R3', 'sibling-search[',
      "                if runSib > base_sib:", "                if runSib > base_sib and runSib >= max(base_sibs):"),
    m('only-first-candidate-extends-a-base', 'R3', 'sibling-search[',
      "                            new_maps.append(new_map)\n                            new_sibs.append(runSib)\n",
      "                            new_maps.append(new_map)\n                            new_sibs.append(runSib)\n                            break\n"),
    m('merged-map-shares-function-table', 'R4', 'new_merged_map:',
      "        new_map = AstMap()\n        new_map.merge_map_with(self)\n        new_map.merge_map_with(other)\n        return new_map",
      "        new_map = AstMap()\n        new_map.merge_map_with(self)\n        new_map.func_table = self.func_table\n        new_map.merge_map_with(other)\n        return new_map",
      file='pedal/cait/ast_map.py'),
    m('merge-done-in-place-on-the-base', 'R4', 'new_merged_map:base-unchanged',
      "        new_map = AstMap()\n        new_map.merge_map_with(self)\n        new_map.merge_map_with(other)\n        return new_map",
      "        self.merge_map_with(other)\n        return self", file='pedal/cait/ast_map.py'),
    m('pattern-text-stripped-per-line', 'R5', 'pattern-text-parsed-as-given',
      "            ast_node = ast.parse(ast_or_code, filename)",
      "            ast_node = ast.parse('\\n'.join(line.rstrip() for line in ast_or_code.split('\\n')), filename)"),
    m('search-prunes-non-statements', 'R1', 'any_node_match[h1]',
      "        for std_child in std_node.children:\n            matching_c = self.any_node_match(",
      "        for std_child in std_node.children:\n            if isinstance(ins_node.astNode, ast.stmt) and not isinstance(std_child.astNode, ast.stmt):\n                continue\n            matching_c = self.any_node_match("),
    dict(name='twin-exp-key-through-getattr', kind='twin', edits=[dict(file='pedal/cait/ast_map.py',
         old="        key = ast_node.id if hasattr(ast_node, 'id') else ast_node._id\n",
         new="        key = getattr(ast_node, 'id', None)\n        if key is None:\n            key = ast_node._id\n")]),
    dict(name='twin-window-is-the-smallest-candidate', kind='twin', edits=[dict(file=ST,
         old="        youngest_sib = run_sibs[0]\n", new="        youngest_sib = min(run_sibs)\n")]),
    dict(name='twin-pattern-text-stripped-at-the-ends', kind='twin', edits=[dict(file=ST,
         old="            ast_node = ast.parse(ast_or_code, filename)",
         new="            ast_node = ast.parse(ast_or_code.strip('\\n'), filename)")]),
    dict(name='twin-search-prunes-leaf-expressions', kind='twin', edits=[dict(file=ST,
         old="        for std_child in std_node.children:\n            matching_c = self.any_node_match(",
         new="        for std_child in std_node.children:\n            if isinstance(ins_node.astNode, ast.stmt) and isinstance(std_child.astNode, ast.expr_context):\n                continue\n            matching_c = self.any_node_match(")]),
    m('primitive-fields-compared-by-identity', 'R7', 'equal-nodes-match',
      "                        is_match = (type(inssub_value) is type(stdsub_value) and\n                                    inssub_value == stdsub_value)",
      "                        is_match = inssub_value is stdsub_value"),
    dict(name='twin-primitive-fields-identity-shortcut', kind='twin', edits=[dict(file=ST,
         old="                        is_match = (type(inssub_value) is type(stdsub_value) and\n                                    inssub_value == stdsub_value)",
         new="                        is_match = inssub_value is stdsub_value or (\n                            type(inssub_value) is type(stdsub_value) and inssub_value == stdsub_value)")]),
    dict(name='twin-children-copied-before-search', kind='twin', edits=[dict(file=ST,
         old="        for std_child in std_node.children:\n            matching_c = self.any_node_match(",
         new="        for std_child in list(std_node.children):\n            matching_c = self.any_node_match(")]),
    dict(name='twin-matches-extended-in-place', kind='twin', edits=[dict(file=ST,
         old="                matching = matching + matching_c", new="                matching = matching + list(matching_c)")]),
    dict(name='twin-wildcard-tested-before-expression', kind='twin', edits=[dict(file=ST,
         old="""        elif match[_EXP] and meta_matched:  # and meta_matched:  # if expression
            # terminate recursion, the whole subtree should match since expression nodes match to anything
            mapping.merge_map_with(use_previous)
            mapping.add_exp_to_sym_table(ins_node, std_node)
            matched = True
        elif match[_WILD] and meta_matched:  # if wild card, don't care
            # terminate the recursion, the whole subtree should match since wild cards match to anything
            matched = True
""",
         new="""        elif match[_WILD] and meta_matched:  # if wild card, don't care
            matched = True
        elif match[_EXP] and meta_matched:  # if expression
            mapping.merge_map_with(use_previous)
            mapping.add_exp_to_sym_table(ins_node, std_node)
            matched = True
""")]),
]
