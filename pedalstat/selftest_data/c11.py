ST = 'pedal/cait/stretchy_tree_matching.py'


def m(name, rule, key, old, new, file=ST):
    return dict(name=name, kind='mutant', rule=rule, key=key, edits=[dict(file=file, old=old, new=new)])


CASES = [
    m('search-only-first-child', 'R1', 'any_node_match[',
      "        for std_child in std_node.children:\n            matching_c = self.any_node_match(",
      "        for std_child in std_node.children[:1]:\n            matching_c = self.any_node_match("),
    m('search-stops-at-first-root-match', 'R1', 'any_node_match[root+a21]',
      "        else:\n            matching = []\n        #    return matching  # return it",
      "            return matching\n        else:\n            matching = []\n        #    return matching  # return it"),
    m('deeper-matches-replace-earlier-ones', 'R1', 'any_node_match[',
      "                matching = matching + matching_c", "                matching = matching_c"),
    m('search-does-not-recurse', 'R1', 'any_node_match[',
      "            matching_c = self.any_node_match(ins_node, std_child, check_meta=check_meta, cut=cut, use_previous=use_previous)",
      "            matching_c = self.deep_find_match(ins_node, std_child, check_meta, use_previous=use_previous)"),
    m('wildcard-only-matches-names', 'R2', 'deep_find_match_Name[___ vs ',
      "        elif match[_WILD] and meta_matched:  # if wild card, don't care",
      "        elif match[_WILD] and meta_matched and type(std_node.astNode).__name__ == \"Name\":"),
    m('expression-placeholder-not-bound', 'R2', 'deep_find_match_Name[__expr__ vs ',
      "            mapping.merge_map_with(use_previous)\n            mapping.add_exp_to_sym_table(ins_node, std_node)\n            matched = True\n        elif match[_WILD]",
      "            mapping.merge_map_with(use_previous)\n            matched = True\n        elif match[_WILD]"),
    m('expression-placeholder-bound-to-pattern', 'R2', 'deep_find_match_Name[__expr__ vs ',
      "            mapping.merge_map_with(use_previous)\n            mapping.add_exp_to_sym_table(ins_node, std_node)\n            matched = True\n        elif match[_WILD]",
      "            mapping.merge_map_with(use_previous)\n            mapping.add_exp_to_sym_table(ins_node, ins_node)\n            matched = True\n        elif match[_WILD]"),
    m('wildcard-ignores-position', 'R2', 'deep_find_match_Name[___ vs Name (other position)]',
      "        elif match[_WILD] and meta_matched:  # if wild card, don't care",
      "        elif match[_WILD]:  # if wild card, don't care"),
    dict(name='twin-children-copied-before-search', kind='twin', edits=[dict(file=ST,
         old="        for std_child in std_node.children:\n            matching_c = self.any_node_match(",
         new="        for std_child in list(std_node.children):\n            matching_c = self.any_node_match(")]),
    dict(name='twin-matches-extended-in-place', kind='twin', edits=[dict(file=ST,
         old="                matching = matching + matching_c", new="                matching = matching + list(matching_c)")]),
    dict(name='twin-wildcard-tested-before-expression', kind='twin', edits=[dict(file=ST,
         old="""        elif match[_EXP] and meta_matched:  # and meta_matched:  # if expression
            # terminate recursion, the whole subtree should match since expression nodes match to anything
            mapping.merge_map_with(use_previous)
            mapping.add_exp_to_sym_table(ins_node, std_node)
            matched = True
        elif match[_WILD] and meta_matched:  # if wild card, don't care
            # terminate the recursion, the whole subtree should match since wild cards match to anything
            matched = True
""",
         new="""        elif match[_WILD] and meta_matched:  # if wild card, don't care
            matched = True
        elif match[_EXP] and meta_matched:  # if expression
            mapping.merge_map_with(use_previous)
            mapping.add_exp_to_sym_table(ins_node, std_node)
            matched = True
""")]),
]
