"""Parse every pedal/**/*.py of a repository tree (optionally with an in-memory overlay).

Nothing from pedal is imported or executed: modules are read as text and parsed with `ast`.
"""
import ast
import hashlib
import os
import warnings


class AnalysisError(Exception):
    """An anchor vanished, an idiom is not recognised, or an instance floor was missed.

    Turned into exit code 2 (ANALYSIS-ERROR) by the driver: never a pass, never a VIOLATION.
    """


def norm(node):
    """Normalised source text of a node (formatting/line independent)."""
    if node is None:
        return 'None'
    if isinstance(node, list):
        return '; '.join(norm(n) for n in node)
    return ast.unparse(node)


class Module:
    def __init__(self, name, relpath, source):
        self.name = name
        self.relpath = relpath
        self.source = source
        try:
            with warnings.catch_warnings():
                warnings.simplefilter('ignore')
                self.tree = ast.parse(source, filename=relpath)
        except SyntaxError as e:  # pragma: no cover - the build would be broken as well
            raise AnalysisError("%s does not parse: %s" % (relpath, e))
        self.is_package = relpath.endswith('__init__.py')
        for parent in ast.walk(self.tree):
            for child in ast.iter_child_nodes(parent):
                child._parent = parent
        self.tree._parent = None
        self._index()

    def _index(self):
        self.functions = {}   # qualname -> FunctionDef (first definition wins for try/except twins)
        self.classes = {}     # qualname -> ClassDef
        self.all_functions = []  # (qualname, node) including duplicates

        def walk(body_owner, prefix):
            for node in ast.iter_child_nodes(body_owner):
                if isinstance(node, (ast.FunctionDef, ast.AsyncFunctionDef)):
                    q = prefix + node.name
                    node._qualname = q
                    node._module = self
                    self.functions.setdefault(q, node)
                    self.all_functions.append((q, node))
                    walk(node, q + '.<locals>.')
                elif isinstance(node, ast.ClassDef):
                    q = prefix + node.name
                    node._qualname = q
                    node._module = self
                    self.classes.setdefault(q, node)
                    walk(node, q + '.')
                elif isinstance(node, (ast.If, ast.Try, ast.With, ast.For, ast.While,
                                       ast.ExceptHandler)):
                    walk(node, prefix)
        walk(self.tree, '')

    # -- anchors ---------------------------------------------------------------------
    def _imported(self, name):
        """Definition of a top-level name this module imports from another pedal module (a function or class a
        refactoring moved away and re-imported under its old name): the FunctionDef/ClassDef node, or None."""
        from . import fdeval as _fdeval
        sym = _fdeval.CURRENT_SYM[0]
        if sym is None or sym.repo.modules.get(self.name) is not self:
            return None
        r = sym.resolve_name(self, name)
        if isinstance(r, tuple) and r and r[0] == 'func':
            return r[2]
        return getattr(r, 'node', None) if r is not None and not isinstance(r, tuple) else None

    def func(self, qualname):
        try:
            return self.functions[qualname]
        except KeyError:
            head, _, rest = qualname.partition('.')
            # `name = staticmethod(helper)` / `name = helper` at class level: an alias kept for callers after the
            # function itself moved to module level (here or in another pedal module)
            cls_node = self.classes.get(head) if rest and '.' not in rest else None
            if cls_node is not None:
                for st in cls_node.body:
                    if isinstance(st, ast.Assign) and any(isinstance(t, ast.Name) and t.id == rest for t in st.targets):
                        v = st.value
                        if isinstance(v, ast.Call) and isinstance(v.func, ast.Name) and \
                                v.func.id in ('staticmethod', 'classmethod') and len(v.args) == 1:
                            v = v.args[0]
                        if isinstance(v, ast.Name):
                            target = self.functions.get(v.id) or self._imported(v.id)
                            if isinstance(target, (ast.FunctionDef, ast.AsyncFunctionDef)):
                                return target
            node = self._imported(head)
            if isinstance(node, (ast.FunctionDef, ast.AsyncFunctionDef)) and not rest:
                return node
            if isinstance(node, ast.ClassDef) and rest:
                found = node._module.functions.get(node._qualname + '.' + rest)
                if found is not None:
                    return found
            raise AnalysisError("anchor vanished: function %s in %s" % (qualname, self.relpath))

    def cls(self, qualname):
        try:
            return self.classes[qualname]
        except KeyError:
            node = self._imported(qualname) if '.' not in qualname else None
            if isinstance(node, ast.ClassDef):
                return node
            raise AnalysisError("anchor vanished: class %s in %s" % (qualname, self.relpath))

    def has_func(self, qualname):
        return qualname in self.functions

    def top_assign(self, name, scope=None):
        """Value expression of the last top-level (or class-level) `name = <expr>`."""
        body = (scope or self.tree).body
        found = None
        for st in body:
            if isinstance(st, ast.Assign):
                for t in st.targets:
                    if isinstance(t, ast.Name) and t.id == name:
                        found = st.value
            elif isinstance(st, ast.AnnAssign) and isinstance(st.target, ast.Name) \
                    and st.target.id == name and st.value is not None:
                found = st.value
        if found is None:
            raise AnalysisError("anchor vanished: assignment to %s in %s%s" % (
                name, self.relpath, '' if scope is None else ':' + scope.name))
        return found

    def loc(self, node):
        return "%s:%s" % (self.relpath, getattr(node, 'lineno', '?'))


def enclosing_function(node):
    n = getattr(node, '_parent', None)
    while n is not None and not isinstance(n, (ast.FunctionDef, ast.AsyncFunctionDef, ast.Lambda)):
        n = getattr(n, '_parent', None)
    return n


def enclosing_class(node):
    n = getattr(node, '_parent', None)
    while n is not None and not isinstance(n, ast.ClassDef):
        if isinstance(n, (ast.FunctionDef, ast.AsyncFunctionDef)):
            # keep climbing: method -> class
            pass
        n = getattr(n, '_parent', None)
    return n


def enclosing_stmt(node):
    n = node
    while n is not None and not isinstance(n, ast.stmt):
        n = getattr(n, '_parent', None)
    return n


def ancestors(node):
    n = getattr(node, '_parent', None)
    while n is not None:
        yield n
        n = getattr(n, '_parent', None)


class Repo:
    """All python modules under <root>/pedal, parsed."""

    def __init__(self, root='/repo', overlay=None, package='pedal'):
        self.root = root
        self.package = package
        self.overlay = overlay or {}
        self.modules = {}
        self.by_relpath = {}
        self.digest = hashlib.sha256()
        pkg_dir = os.path.join(root, package)
        if not os.path.isdir(pkg_dir):
            raise AnalysisError("no %s/ directory under %s" % (package, root))
        paths = []
        for dirpath, dirnames, filenames in os.walk(pkg_dir):
            dirnames[:] = sorted(d for d in dirnames if d != '__pycache__')
            for fn in sorted(filenames):
                if fn.endswith('.py'):
                    paths.append(os.path.join(dirpath, fn))
        for path in paths:
            rel = os.path.relpath(path, root)
            if rel in self.overlay:
                src = self.overlay[rel]
            else:
                with open(path, encoding='utf-8') as f:
                    src = f.read()
            self._add(rel, src)
        for rel, src in self.overlay.items():
            if rel not in self.by_relpath and rel.endswith('.py'):
                self._add(rel, src)

    def _add(self, rel, src):
        parts = rel[:-3].split(os.sep)
        if parts[-1] == '__init__':
            parts = parts[:-1]
        name = '.'.join(parts)
        mod = Module(name, rel, src)
        self.modules[name] = mod
        self.by_relpath[rel] = mod
        self.digest.update(rel.encode())
        self.digest.update(src.encode())

    def module(self, name):
        try:
            return self.modules[name]
        except KeyError:
            raise AnalysisError("anchor vanished: module %s" % name)

    def read_text(self, relpath):
        if relpath in self.overlay:
            return self.overlay[relpath]
        with open(os.path.join(self.root, relpath), encoding='utf-8') as f:
            return f.read()

    def hexdigest(self):
        return self.digest.hexdigest()[:16]
