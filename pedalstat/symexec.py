"""Helpers for rules phrased as abstract execution with symbolic markers.

A rule builds a `self` object whose collaborators are stubs that record how they were called, runs the method's AST
through the whitelist interpreter (fdeval), and inspects the recorded events: which marker object reached which
argument, how often and in what order something was called. Private helpers of the class or module that the method
calls are interpreted as well (fdeval follows them), so extracting, inlining or renaming helpers and locals does not
change the verdict - only what the code does with the markers matters."""
from .fdeval import FD, Obj, Raised, Inconclusive, module_resolver
from .loader import AnalysisError


class Recorder:
    def __init__(self):
        self.events = []   # (name, args, kwargs)

    def stub(self, name, ret=None, fn=None):
        def f(*a, **k):
            self.events.append((name, a, k))
            return fn(*a, **k) if fn is not None else ret
        f._fd_callable = True
        return f

    def named(self, name):
        return [e for e in self.events if e[0] == name]

    def order(self, *names):
        return [e[0] for e in self.events if e[0] in names]


def marker(name, **attrs):
    o = Obj(name, **attrs)
    o.attrs['__marker__'] = name
    return o


def new_fd(sym, mod, calls=None, extra=None, max_steps=200000):
    return FD(calls=dict(calls or {}), resolver=module_resolver(sym, mod, extra=extra or {}), max_steps=max_steps)


def self_obj(mod, clsname, closed=False, **attrs):
    o = Obj(clsname, **attrs)
    o.attrs['__classdef__'] = mod.cls(clsname)
    if closed:
        o.attrs['__closed__'] = True
    else:
        o.attrs['__open__'] = True
    return o


def method(obj, name, f):
    obj.attrs['method:' + name] = f
    return obj


def run(fd, fn, args, kwargs=None, bound_self=None, what=''):
    """(value, None) or (None, Raised); Inconclusive becomes an AnalysisError naming the fragment."""
    try:
        return fd.call_function(fn, list(args), kwargs or {}, bound_self=bound_self), None
    except Raised as r:
        return None, r
    except Inconclusive as e:
        raise AnalysisError("%s is outside the decidable fragment: %s" % (what or getattr(fn, '_qualname', fn), e))


def init_literals(mod, clsname):
    """{attribute: value} for every `self.X = <literal>` of the class's __init__ (numbers, strings, None, booleans,
    empty containers): the private bookkeeping a symbolic `self` needs, under whatever names the code uses."""
    import ast
    out = {}
    try:
        init = mod.func(clsname + '.__init__')
    except AnalysisError:
        return out
    for n in ast.walk(init):
        if isinstance(n, ast.Assign):
            for t in n.targets:
                if isinstance(t, ast.Attribute) and isinstance(t.value, ast.Name) and t.value.id == 'self':
                    v = n.value
                    if isinstance(v, ast.Constant) and isinstance(v.value, (int, float, str, bool, type(None))):
                        out.setdefault(t.attr, v.value)
                    elif isinstance(v, (ast.List, ast.Tuple)) and not v.elts:
                        out.setdefault(t.attr, [] if isinstance(v, ast.List) else ())
                    elif isinstance(v, ast.Dict) and not v.keys:
                        out.setdefault(t.attr, {})
                    elif isinstance(v, ast.Call) and isinstance(v.func, ast.Name) and not v.args and not v.keywords \
                            and v.func.id in ('set', 'dict', 'list', 'tuple'):
                        out.setdefault(t.attr, {'set': set, 'dict': dict, 'list': list, 'tuple': tuple}[v.func.id]())
    return out


MOCKED_ESTABLISHED = frozenset((
    'do_nothing', '_disabled_compile', '_disabled_eval', '_disabled_exec', '_disabled_globals', 'FunctionNotAllowed',
    'disabled_builtin', 'create_open_function', 'create_import_function', 'make_inputs', 'PrintingStringIO',
    'make_fake_output', 'create_module', 'MockModule', 'MockDictModule', 'BlockedModule', 'MockPedal',
    'generic_function_capture', 'MethodExposer', 'MockModuleExposing'))


def module_stub(sym, target_mod, alias, established, events=None, **data):
    """Stand-in for a pedal module used as `alias.X(...)`: the established factories and classes give marker objects
    (`made_by`, `args`), module-level data comes from `data`, and any OTHER function the module defines today - a
    helper a refactoring moved there - is interpreted in that module, with the same markers for the established names.
    Returns (stand-in object, marker maker)."""
    o = Obj(alias, **data)
    o.attrs['__open__'] = True

    def marker(nm, *a, **k):
        if events is not None:
            events.append((alias + '.' + nm, a, k))
        return Obj('%s.%s(...)' % (alias, nm), made_by=nm, args=a)

    def unknown(nm, *a, **k):
        fn = target_mod.functions.get(nm)
        if nm in established or fn is None:
            return marker(nm, *a, **k)
        calls = {e: (lambda *aa, _e=e, **kk: marker(_e, *aa, **kk)) for e in established}
        fd = new_fd(sym, target_mod, calls=calls, extra=dict(data))
        value, raised = run(fd, fn, list(a), k, what='%s.%s' % (alias, nm))
        if raised is not None:
            raise raised
        return value
    o.attrs['__unknown_method__'] = unknown

    def unknown_attr(name):
        # a module-level table of the real module (`mocked.DEFAULT_MOCKED_MODULES`): its value, with every class or
        # function it names standing for a marker factory, as when the module is called directly
        import ast as _ast
        from .fdeval import _MISSING, FD, module_resolver, Inconclusive as _Inc, Raised as _Rs
        from .symbols import ClassInfo as _CI
        value = None
        for st in target_mod.tree.body:
            if isinstance(st, _ast.Assign) and any(isinstance(t, _ast.Name) and t.id == name for t in st.targets):
                value = st.value
        if value is None:
            return _MISSING
        inner = module_resolver(sym, target_mod)

        def resolver(nm):
            if nm in data:
                return data[nm]
            r = sym.resolve_name(target_mod, nm)
            if nm in established or isinstance(r, _CI) or (isinstance(r, tuple) and r and r[0] == 'func'):
                f = lambda *a, _n=nm, **k: unknown(_n, *a, **k)
                f._fd_callable = True
                return f
            return inner(nm)
        try:
            return FD(max_steps=100000, resolver=resolver).eval(value, {})
        except (_Inc, _Rs):
            return _MISSING
    o.attrs['__unknown_attr__'] = unknown_attr
    return o, unknown


def model_submission(ctx, main_code, main_file='answer.py', files=None, **attrs):
    """A submission whose methods (get_lines, get_files_lines, replace_main, ...) are pedal's own, interpreted: an
    instance of Submission with the bookkeeping of its __init__ and the given texts."""
    smod = ctx.repo.module('pedal.core.submission')
    base = dict(init_literals(smod, 'Submission'))
    all_files = dict(files or {})
    all_files.setdefault(main_file, main_code)
    base.update(main_code=main_code, main_file=main_file, files=all_files, _original_main_code=main_code,
                instructor_file='instructor_tests.py', load_error=None)
    base.setdefault('line_offsets', {})
    base.setdefault('_lines_cache', {})
    base.update(attrs)
    return self_obj(smod, 'Submission', **base)
