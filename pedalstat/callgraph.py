"""Resolved callees for the call shapes pedal uses, and reverse edges for who-may-call."""
import ast

from .astutil import dotted, walk_local
from .loader import enclosing_function
from .symbols import ClassInfo


class Callee:
    __slots__ = ('module', 'fn', 'cls', 'kind')

    def __init__(self, module, fn, cls=None, kind='func'):
        self.module = module
        self.fn = fn
        self.cls = cls      # ClassInfo when fn is a method / constructor target
        self.kind = kind    # 'func' | 'method' | 'init'

    @property
    def qualname(self):
        return getattr(self.fn, '_qualname', self.fn.name)

    def __repr__(self):
        return "<callee %s:%s>" % (self.module.name, self.qualname)

    def params(self):
        """Positional parameter names as seen by the caller (self dropped for bound calls)."""
        names = [a.arg for a in self.fn.args.posonlyargs + self.fn.args.args]
        if self.kind in ('method', 'init') and names and names[0] in ('self', 'cls'):
            names = names[1:]
        return names


def class_of_function(sym, mod, fn):
    q = getattr(fn, '_qualname', '')
    if '.' in q:
        cq = q.rsplit('.', 1)[0]
        return sym.classes.get((mod.name, cq))
    return None


def resolve_call(sym, mod, call, within=None, extra=None):
    """Callee of an ast.Call inside module `mod` (function `within` gives the `self` class).
    `extra` maps local names to ClassInfo / ('func', Module, node) for dynamic dispatch idioms
    resolved by the rule. Returns Callee or None."""
    f = call.func
    cls = class_of_function(sym, mod, within) if within is not None else None
    if isinstance(f, ast.Name):
        if extra and f.id in extra:
            return _as_callee(sym, extra[f.id])
        r = sym.resolve_name(mod, f.id)
        return _as_callee(sym, r)
    if isinstance(f, ast.Attribute):
        # self.m(...)
        if isinstance(f.value, ast.Name) and f.value.id in ('self', 'cls') and cls is not None:
            m = sym.method(cls, f.attr)
            if m is not None:
                return Callee(m[0].module, m[1], m[0], 'method')
            # mixin: method supplied by a subclass
            for sub in sym.subclasses(cls, strict=True):
                m = sym.method(sub, f.attr)
                if m is not None:
                    return Callee(m[0].module, m[1], m[0], 'method')
            return None
        # super().m(...)
        if isinstance(f.value, ast.Call) and dotted(f.value.func) == 'super' and cls is not None:
            mro = sym.mro(cls)
            for c in mro[1:]:
                if f.attr in c.methods:
                    return Callee(c.module, c.methods[f.attr], c, 'init' if f.attr == '__init__' else 'method')
            return None
        r = sym.resolve_expr(mod, f.value)
        if r is not None:
            m = sym.get_member(r, f.attr)
            if m is not None:
                c = _as_callee(sym, m)
                if c is not None and isinstance(r, ClassInfo) and c.kind == 'func':
                    # Cls.method(...) unbound or static
                    c.cls = r
                elif c is not None and isinstance(r, tuple) and r[0] == 'value' and c.kind == 'func':
                    c.kind = 'method'   # bound method of a module-level instance
                return c
    return None


def _as_callee(sym, r):
    if r is None:
        return None
    if isinstance(r, ClassInfo):
        m = sym.method(r, '__init__')
        if m is None:
            return None
        return Callee(m[0].module, m[1], r, 'init')
    if isinstance(r, tuple) and r[0] == 'func':
        return Callee(r[1], r[2], None, 'func')
    return None


def bind_args(callee, call):
    """Map callee parameter name -> argument expression for a call (positional + keyword)."""
    out = {}
    names = callee.params()
    for i, a in enumerate(call.args):
        if isinstance(a, ast.Starred):
            break
        if i < len(names):
            out[names[i]] = a
    kwonly = [a.arg for a in callee.fn.args.kwonlyargs]
    for k in call.keywords:
        if k.arg is not None:
            out[k.arg] = k.value
    return out


def callers_of(repo, attr_or_name):
    """All (module, qualname, fn, call) whose callee name (last component) equals the name."""
    out = []
    for m in repo.modules.values():
        for q, fn in m.all_functions:
            for n in walk_local(fn):
                if isinstance(n, ast.Call):
                    d = n.func.attr if isinstance(n.func, ast.Attribute) else (
                        n.func.id if isinstance(n.func, ast.Name) else None)
                    if d == attr_or_name:
                        out.append((m, q, fn, n))
        for n in walk_local(m.tree):
            if isinstance(n, ast.Call) and enclosing_function(n) is None:
                d = n.func.attr if isinstance(n.func, ast.Attribute) else (
                    n.func.id if isinstance(n.func, ast.Name) else None)
                if d == attr_or_name:
                    out.append((m, '<module>', None, n))
    return out
