#!/venv/bin/python
"""Take a sub-agent's behaviour-preserving changes into /verif/benign.

usage: tools/benign_intake.py <worktree> <property id> <src suffix>=<dst suffix> ...

For every pair: <worktree>/benign_<src>.diff must apply to a clean worktree, the pinned suite must keep every
stable pass with it applied (tools/baseline.py), and it is then stored as benign/<id>_<dst>/patch.diff (+ why.txt).
The worktree is left clean.
"""
import os
import shutil
import subprocess
import sys

HERE = os.path.dirname(os.path.dirname(os.path.abspath(__file__)))


def sh(*args, **kw):
    return subprocess.run(list(args), capture_output=True, text=True, **kw)


def main(argv):
    wt, pid, pairs = argv[0], argv[1], [a.split('=') for a in argv[2:]]
    ok = True
    for src, dst in pairs:
        diff = os.path.join(wt, 'benign_%s.diff' % src)
        why = os.path.join(wt, 'why_%s.txt' % src)
        if not os.path.exists(diff):
            print('%s_%s: no diff' % (pid, dst))
            ok = False
            continue
        sh('git', '-C', wt, 'checkout', '--', '.')
        r = sh('git', '-C', wt, 'apply', diff)
        if r.returncode:
            print('%s_%s: does not apply: %s' % (pid, dst, r.stderr.strip()[:200]))
            ok = False
            continue
        touched = sh('git', '-C', wt, 'diff', '--name-only').stdout.split()
        b = sh('/venv/bin/python', os.path.join(HERE, 'tools', 'baseline.py'), wt)
        sh('git', '-C', wt, 'checkout', '--', '.')
        if any(t.startswith('tests/') for t in touched):
            print('%s_%s: touches tests' % (pid, dst))
            ok = False
            continue
        if b.returncode:
            print('%s_%s: pinned suite differs: %s' % (pid, dst, b.stdout.strip()[-300:]))
            ok = False
            continue
        out = os.path.join(HERE, 'benign', '%s_%s' % (pid, dst))
        os.makedirs(out, exist_ok=True)
        shutil.copy(diff, os.path.join(out, 'patch.diff'))
        if os.path.exists(why):
            shutil.copy(why, os.path.join(out, 'why.txt'))
        print('%s_%s: kept (%s; %s)' % (pid, dst, ' '.join(touched), b.stdout.strip().splitlines()[-1]))
    return 0 if ok else 1


if __name__ == '__main__':
    sys.exit(main(sys.argv[1:]))
