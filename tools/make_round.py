#!/venv/bin/python
"""Prepare a round of independent sub-agent work: one scratch git worktree of /repo per property under
/tmp/<round>/<kind>_<property> and a prompt file next to it, built from tools/prompts/<kind>.txt and the property text
(nothing from /verif goes into the prompt).

usage: tools/make_round.py <round dir name> breaking|benign <property ids...>
"""
import json
import os
import subprocess
import sys

HERE = os.path.dirname(os.path.dirname(os.path.abspath(__file__)))


def main(argv):
    rnd, kind, ids = argv[0], argv[1], argv[2:]
    props = {}
    for line in open(os.path.join(HERE, 'properties.jsonl')):
        d = json.loads(line)
        props[d['id']] = d
    template = open(os.path.join(HERE, 'tools', 'prompts', kind + '.txt')).read()
    base = os.path.join('/tmp', rnd)
    os.makedirs(base, exist_ok=True)
    short = {'breaking': 'brk', 'breaking2': 'brk', 'benign': 'ben'}[kind]
    for pid in ids:
        d = props[pid]
        wt = os.path.join(base, '%s_%s' % (short, pid))
        if not os.path.exists(wt):
            subprocess.run(['git', '-C', '/repo', 'worktree', 'add', '--detach', wt, 'HEAD'], check=True,
                           capture_output=True)
        extra = os.environ.get('ROUND_EXTRA', '')
        open(os.path.join(base, 'prompt_%s_%s.txt' % (short, pid)), 'w').write(template.format(
            wt=wt, pid=pid, title=d['title'], statement=d['statement'], quantifier=d['quantifier']['text'],
            extra=(' ' + extra) if extra else ''))
        print(wt)


if __name__ == '__main__':
    main(sys.argv[1:])
