#!/venv/bin/python
"""Run the pinned suite on a tree (default /repo) and compare with BASELINE.json's stable_pass."""
import json, subprocess, sys, tempfile, os, xml.etree.ElementTree as ET
root = sys.argv[1] if len(sys.argv) > 1 else '/repo'
base = json.load(open('/root/.vp/BASELINE.json'))
want = set(base['stable_pass'])
with tempfile.TemporaryDirectory() as d:
    x = os.path.join(d, 'j.xml')
    p = subprocess.run(['/venv/bin/python', '-m', 'pytest', '-q', '-p', 'no:cacheprovider', '--timeout=900',
                        '--continue-on-collection-errors', '--junitxml=' + x], cwd=root,
                       stdout=subprocess.PIPE, stderr=subprocess.STDOUT, text=True)
    passed = set()
    for tc in ET.parse(x).getroot().iter('testcase'):
        if not any(c.tag in ('failure', 'error', 'skipped') for c in tc):
            passed.add(tc.get('classname') + '::' + tc.get('name'))
missing = sorted(want - passed)
print(p.stdout.strip().splitlines()[-1])
print("stable_pass=%d passed_now=%d missing=%d" % (len(want), len(passed), len(missing)))
for m in missing[:20]:
    print("  MISSING", m)
sys.exit(1 if missing else 0)
