#!/venv/bin/python
"""Regenerate the generated parts of DESIGN.md: the list of fixed defects (10.2) from known_findings.json and the
seed table (10.5) from seeded/*/meta.json. Everything between the BEGIN/END markers is replaced."""
import json
import os
import re

HERE = os.path.dirname(os.path.dirname(os.path.abspath(__file__)))


def fixed_list():
    k = json.load(open(os.path.join(HERE, 'known_findings.json')))
    return '\n'.join('* ' + e[len('fixed: '):] for e in k['fixed'])


def seed_table():
    rows = ['| seed | edits | needs, to manifest | reported by |', '|---|---|---|---|']
    d = os.path.join(HERE, 'seeded')
    for sid in sorted(os.listdir(d)):
        mp = os.path.join(d, sid, 'meta.json')
        if not os.path.exists(mp):
            continue
        m = json.load(open(mp))
        files = sorted({l[6:].strip().replace('pedal/', '', 1) for l in open(os.path.join(d, sid, 'patch.diff'))
                        if l.startswith('+++ b/')})
        det = '; '.join('%s.%s' % (e['property'], e['rule']) for e in m.get('expected_detection', []))
        rows.append('| %s | %s | %s | %s |' % (sid, ', '.join('`%s`' % f for f in files),
                                             m.get('needs_to_manifest', '').replace('|', '/').replace('\n', ' '), det))
    return '\n'.join(rows)


def main():
    p = os.path.join(HERE, 'DESIGN.md')
    s = open(p).read()
    for tag, text in (('FIXED', fixed_list()), ('SEEDS', seed_table())):
        pat = re.compile(r'(<!-- BEGIN %s -->\n).*?(\n<!-- END %s -->)' % (tag, tag), re.S)
        assert pat.search(s), tag
        s = pat.sub(lambda m: m.group(1) + text + m.group(2), s)
    open(p, 'w').write(s)


if __name__ == '__main__':
    main()
