#!/venv/bin/python
"""Re-evaluate every seeded change against every static check, in memory.

Each /verif/seeded/<id>/patch.diff is applied as an overlay on /repo's current files (nothing is written to /repo,
pedal is not executed) and every claimed property's quick check runs on it. The new findings (not in
known_findings.json) are recorded in the seed's meta.json as `detection_current`, and the first finding per
property becomes an `expected_detection` entry, which `pedalstat selftest` then enforces as a regression case.

usage: tools/seed_detect.py [--write] [seed ids...]
"""
import json
import multiprocessing
import os
import sys

HERE = os.path.dirname(os.path.dirname(os.path.abspath(__file__)))
sys.path.insert(0, HERE)

from pedalstat.claims import CLAIMS  # noqa: E402
from pedalstat.loader import AnalysisError  # noqa: E402
from pedalstat.report import load_known  # noqa: E402
from pedalstat.selftest import apply_unified_diff  # noqa: E402

REPO = os.environ.get('VERIF_REPO', '/repo')


def one(args):
    seed, prop = args
    from pedalstat.__main__ import run_property
    diff = open(os.path.join(HERE, 'seeded', seed, 'patch.diff')).read()
    overlay, why = apply_unified_diff(REPO, diff)
    if overlay is None:
        return seed, prop, 'unapplicable', why
    try:
        code, ctx, _ = run_property(prop, REPO, 'quick', overlay=overlay, quiet=True, write=False)
    except AnalysisError as e:
        return seed, prop, 'analysis-error', str(e)[:200]
    except Exception as e:
        return seed, prop, 'internal-error', repr(e)[:200]
    known = {(k['property'], k['rule'], k['key']) for k in load_known().get('known', [])}
    new = [(f.rule, f.key) for f in ctx.findings if f.ident() not in known]
    return seed, prop, 'findings' if new else 'silent', new


def main(argv):
    write = '--write' in argv
    ids = [a for a in argv if not a.startswith('--')]
    seeds = sorted(d for d in os.listdir(os.path.join(HERE, 'seeded'))
                   if os.path.exists(os.path.join(HERE, 'seeded', d, 'patch.diff')) and (not ids or d in ids))
    props = sorted(CLAIMS)
    work = [(s, p) for s in seeds for p in props]
    with multiprocessing.Pool(16) as pool:
        results = pool.map(one, work, chunksize=1)
    by_seed = {}
    for seed, prop, status, detail in results:
        by_seed.setdefault(seed, {})[prop] = (status, detail)
    missed = []
    for seed in seeds:
        meta_path = os.path.join(HERE, 'seeded', seed, 'meta.json')
        meta = json.load(open(meta_path))
        target = meta['breaks_property']
        det = {}
        expected = []
        for prop, (status, detail) in sorted(by_seed[seed].items()):
            if status == 'findings':
                det[prop] = [{'rule': r, 'key': k} for r, k in detail[:6]]
                expected.append({'property': prop, 'rule': detail[0][0], 'key': detail[0][1]})
            elif status != 'silent':
                det[prop] = status + ': ' + str(detail)
                if status == 'analysis-error':
                    expected.append({'property': prop, 'rule': 'ANALYSIS-ERROR', 'key': ''})
        by_target = target in det
        line = '%-7s target=%s %s  caught-by=%s' % (
            seed, target, 'TARGET' if by_target else ('other ' if det else 'MISSED'),
            {p: (v[0]['rule'] if isinstance(v, list) else v[:40]) for p, v in det.items()})
        print(line)
        if not isinstance(det.get(target), list):
            missed.append(seed)     # not reported as a violation by its target property (analysis errors do not count)
        if write:
            meta['detection_current'] = det
            meta['expected_detection'] = expected
            meta['caught_by_target_property'] = by_target
            with open(meta_path, 'w') as fh:
                json.dump(meta, fh, indent=1)
    print('seeds=%d missed=%s' % (len(seeds), missed))


if __name__ == '__main__':
    main(sys.argv[1:])
