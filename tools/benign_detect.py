#!/venv/bin/python
"""False-alarm test: apply each behaviour-preserving change under /verif/benign/<id>/patch.diff (or any *.diff given on
the command line) as an in-memory overlay on /repo and run every claimed property's quick check on it. Any new
finding, and any ANALYSIS-ERROR, is reported: on a benign change every check must stay silent.

usage: tools/benign_detect.py [diff files...]
"""
import glob
import multiprocessing
import os
import sys

HERE = os.path.dirname(os.path.dirname(os.path.abspath(__file__)))
sys.path.insert(0, HERE)

from pedalstat.claims import CLAIMS  # noqa: E402
from pedalstat.loader import AnalysisError  # noqa: E402
from pedalstat.report import load_known  # noqa: E402
from pedalstat.selftest import apply_unified_diff  # noqa: E402

REPO = os.environ.get('VERIF_REPO', '/repo')


def one(args):
    path, prop = args
    from pedalstat.__main__ import run_property
    overlay, why = apply_unified_diff(REPO, open(path).read())
    if overlay is None:
        return path, prop, 'unapplicable', why
    try:
        code, ctx, _ = run_property(prop, REPO, 'quick', overlay=overlay, quiet=True, write=False)
    except AnalysisError as e:
        return path, prop, 'analysis-error', str(e)[:300]
    except Exception as e:
        import traceback
        return path, prop, 'internal-error', repr(e)[:200] + traceback.format_exc()[-400:]
    known = {(k['property'], k['rule'], k['key']) for k in load_known().get('known', [])}
    new = [(f.rule, f.key, f.explanation[:200]) for f in ctx.findings if f.ident() not in known]
    return path, prop, 'findings' if new else 'silent', new


def main(argv):
    paths = argv or sorted(glob.glob(os.path.join(HERE, 'benign', '*', 'patch.diff')))
    work = [(p, prop) for p in paths for prop in sorted(CLAIMS)]
    with multiprocessing.Pool(16) as pool:
        results = pool.map(one, work, chunksize=1)
    bad = 0
    for path, prop, status, detail in results:
        if status != 'silent':
            bad += 1
            print('%s  %s  %s  %s' % (path.replace(HERE + '/', ''), prop, status, detail))
    print('changes=%d runs=%d not-silent=%d' % (len(paths), len(results), bad))
    return 1 if bad else 0


if __name__ == '__main__':
    sys.exit(main(sys.argv[1:]))
