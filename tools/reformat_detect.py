#!/venv/bin/python
"""Formatting-independence test: replace every pedal module by ast.unparse(ast.parse(source)) (layout and comments
gone, every line number changed) as an in-memory overlay and run each claimed property quick check: all must stay
silent - no rule may depend on layout, comments or positions.

usage: tools/reformat_detect.py
"""
import ast
import multiprocessing
import os
import sys
import warnings
warnings.simplefilter("ignore", SyntaxWarning)
sys.path.insert(0, os.path.dirname(os.path.dirname(os.path.abspath(__file__))))
from pedalstat.claims import CLAIMS
from pedalstat.loader import AnalysisError
from pedalstat.report import load_known
def overlay():
    ov = {}
    for d, _, fs in os.walk('/repo/pedal'):
        for f in fs:
            if f.endswith('.py'):
                p = os.path.join(d, f)
                rel = os.path.relpath(p, '/repo')
                src = open(p, encoding='utf-8').read()
                try:
                    ov[rel] = ast.unparse(ast.parse(src)) + '\n'
                except SyntaxError:
                    pass
    return ov
def one(prop):
    from pedalstat.__main__ import run_property
    try:
        code, ctx, _ = run_property(prop, '/repo', 'quick', overlay=overlay(), quiet=True, write=False)
    except AnalysisError as e:
        return prop, 'analysis-error', str(e)[:400]
    except Exception as e:
        import traceback
        return prop, 'internal', traceback.format_exc()[-600:]
    known = {(k['property'], k['rule'], k['key']) for k in load_known().get('known', [])}
    new = [(f.rule, f.key, f.explanation[:200]) for f in ctx.findings if f.ident() not in known]
    return prop, 'findings' if new else 'silent', new
if __name__ == '__main__':
    with multiprocessing.Pool(16) as pool:
        bad = 0
        for r in pool.map(one, sorted(CLAIMS)):
            bad += r[1] != 'silent'
            print(r[0], r[1], r[2] if r[1] != 'silent' else '')
    sys.exit(1 if bad else 0)
