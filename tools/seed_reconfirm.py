#!/venv/bin/python
"""Re-confirm every seeded change on the current /repo HEAD: in scratch worktrees (outside /repo and /verif, removed
afterwards) the demonstration must exit 0 without the change and non-zero with it, and the pinned suite must keep all
493 stable tests. usage: seed_reconfirm.py [--jobs N] [ids...]"""
import json
import multiprocessing
import os
import shutil
import subprocess
import sys
import tempfile

VERIF = os.path.dirname(os.path.dirname(os.path.abspath(__file__)))


def sh(cmd, cwd, timeout=1800):
    p = subprocess.run(cmd, cwd=cwd, shell=isinstance(cmd, str), stdout=subprocess.PIPE, stderr=subprocess.STDOUT,
                       text=True, timeout=timeout)
    return p.returncode, p.stdout


def worker(args):
    slot, ids = args
    wt = os.path.join(tempfile.gettempdir(), 'reconfirm_%d' % slot)
    sh(['git', '-C', '/repo', 'worktree', 'remove', '--force', wt], VERIF)
    rc, out = sh(['git', '-C', '/repo', 'worktree', 'add', '--detach', wt, 'HEAD'], VERIF)
    results = []
    try:
        for sid in ids:
            d = os.path.join(VERIF, 'seeded', sid)
            sh('git checkout -q -- . && git clean -fdq', wt)
            shutil.copy(os.path.join(d, 'demo.py'), os.path.join(wt, '_demo.py'))
            rc0, _ = sh(['/venv/bin/python', '_demo.py'], wt, 900)
            rca, txt = sh(['git', 'apply', '--whitespace=nowarn', os.path.join(d, 'patch.diff')], wt)
            if rca != 0:
                results.append((sid, 'patch does not apply'))
                continue
            rc1, _ = sh(['/venv/bin/python', '_demo.py'], wt, 900)
            os.remove(os.path.join(wt, '_demo.py'))
            _, base = sh(['/venv/bin/python', os.path.join(VERIF, 'tools', 'baseline.py'), wt], VERIF)
            ok = rc0 == 0 and rc1 != 0 and 'missing=0' in base
            results.append((sid, 'ok' if ok else 'demo without=%s with=%s tests=%s' % (
                rc0, rc1, base.strip().splitlines()[-1] if base.strip() else '?')))
    finally:
        sh(['git', '-C', '/repo', 'worktree', 'remove', '--force', wt], VERIF)
    return results


def main(argv):
    jobs = 6
    if '--jobs' in argv:
        i = argv.index('--jobs')
        jobs = int(argv[i + 1])
        argv = argv[:i] + argv[i + 2:]
    ids = sorted(d for d in os.listdir(os.path.join(VERIF, 'seeded'))
                 if os.path.exists(os.path.join(VERIF, 'seeded', d, 'patch.diff')) and (not argv or d in argv))
    chunks = [(i, ids[i::jobs]) for i in range(jobs)]
    with multiprocessing.Pool(jobs) as pool:
        parts = pool.map(worker, chunks)
    bad = 0
    for sid, status in sorted(r for part in parts for r in part):
        if status != 'ok':
            bad += 1
            print(sid, status)
    print('seeds=%d not-confirmed=%d' % (len(ids), bad))


if __name__ == '__main__':
    main(sys.argv[1:])
