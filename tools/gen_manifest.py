#!/venv/bin/python
"""Regenerate MANIFEST.json from pedalstat/claims.py (single source of truth)."""
import json, os, sys
sys.path.insert(0, os.path.dirname(os.path.dirname(os.path.abspath(__file__))))
from pedalstat import claims
props = [json.loads(l) for l in open(os.path.join(os.path.dirname(__file__), '..', 'properties.jsonl'))]
checks, na = [], []
for p in props:
    pid = p['id']
    c = claims.CLAIMS.get(pid)
    if c is None:
        na.append({'property_id': pid, 'reason': claims.NOT_APPLICABLE.get(pid, 'check not built yet (construction in progress)')})
        continue
    checks.append({
        'property_id': pid,
        'quick_cmd': '/venv/bin/python -m pedalstat check %s --tier quick' % pid,
        'thorough_cmd': '/venv/bin/python -m pedalstat check %s --tier thorough' % pid,
        'evidence_file': '/verif/evidence/%s.json' % pid,
        'replay_cmd_template': '/venv/bin/python -m pedalstat replay {path}',
        'engine': 'pedalstat',
        'level_claimed': {'category': 'other', 'text': c['text'], 'design_ref': 'DESIGN.md section 6, ' + pid},
        'level_note': c['note'],
        'technique': c['technique'],
    })
m = {
    'version': 1,
    'setup_cmd': '/venv/bin/python -m pedalstat selfcheck',
    'hooks': {
        'guard': 'PEDAL_EDU_PEDAL_VERIF',
        'enable': 'none needed: the checks parse /repo\'s working tree with ast; no instrumentation exists in pedal',
        'baseline_off_cmd': 'cd /repo && /venv/bin/python -m pytest -ra -q -p no:cacheprovider --timeout=900 --continue-on-collection-errors',
        'source_commits': [],
        'add_only': True,
    },
    'engines': [{'name': 'pedalstat', 'path': '/verif/pedalstat', 'serves_properties': [c['property_id'] for c in checks],
                 'kind_free_text': 'repository-specific static analysis on the stdlib ast: symbol/class tables, '
                                   'exception-edge CFG, call graph, effect sets, finite-domain table extraction, '
                                   'tables compared with CPython oracles'}],
    'checks': checks,
    'not_applicable': na,
    'notes': 'Exit 0 holds (KNOWN-FINDING lines for defects listed in known_findings.json), 1 VIOLATION, 2 ANALYSIS-ERROR '
             '(anchor vanished / idiom unrecognised: never a silent pass). Fix commits in /repo are listed in known_findings.json.',
}
json.dump(m, open(os.path.join(os.path.dirname(__file__), '..', 'MANIFEST.json'), 'w'), indent=1)
print('checks:', [c['property_id'] for c in checks]); print('n/a:', [n['property_id'] for n in na])
