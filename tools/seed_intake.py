#!/venv/bin/python
"""Confirm and take in seeded changes produced by sub-agents.

usage: seed_intake.py <agent worktree> <property id> <suffix for seed_a> <suffix for seed_b>
e.g.   seed_intake.py /tmp/r2/brk_C01 C01 c d     -> /verif/seeded/C01_c, /verif/seeded/C01_d

For each seed_X.diff / demo_X.py found in the worktree: revert the worktree, run the demo (must exit 0), apply the
diff, run the demo (must exit non-zero) and the pinned suite (all 493 stable tests must pass), revert. Only a change
that passes all of that is copied to /verif/seeded/<id>/ with a meta.json. Nothing touches /repo.
"""
import json
import os
import shutil
import subprocess
import sys

VERIF = os.path.dirname(os.path.dirname(os.path.abspath(__file__)))


def sh(cmd, cwd, timeout=1800):
    p = subprocess.run(cmd, cwd=cwd, shell=isinstance(cmd, str), stdout=subprocess.PIPE, stderr=subprocess.STDOUT,
                       text=True, timeout=timeout)
    return p.returncode, p.stdout


def main():
    wt, prop = os.path.abspath(sys.argv[1]), sys.argv[2]
    suffixes = sys.argv[3:]
    assert not wt.startswith('/repo') and not wt.startswith('/verif')
    for letter, suf in zip('abcdefgh', suffixes):
        diff, demo = os.path.join(wt, 'seed_%s.diff' % letter), os.path.join(wt, 'demo_%s.py' % letter)
        sid = '%s_%s' % (prop, suf)
        if not (os.path.exists(diff) and os.path.exists(demo)):
            print(sid, 'MISSING files')
            continue
        sh('git checkout -- pedal', wt)
        rc0, _ = sh(['/venv/bin/python', demo], wt, 600)
        rc, txt = sh(['git', 'apply', '--whitespace=nowarn', diff], wt)
        if rc != 0:
            print(sid, 'REJECTED: patch does not apply', txt[-200:])
            continue
        try:
            rc1, out1 = sh(['/venv/bin/python', demo], wt, 600)
            _, base = sh(['/venv/bin/python', os.path.join(VERIF, 'tools', 'baseline.py'), wt], VERIF)
        finally:
            sh('git checkout -- pedal', wt)
        ok_tests = 'missing=0' in base
        touched_tests = any(l.startswith('+++ b/tests') for l in open(diff))
        if rc0 != 0 or rc1 == 0 or not ok_tests or touched_tests:
            print(sid, 'REJECTED: demo without=%s with=%s tests=%s touches-tests=%s' % (
                rc0, rc1, base.strip().splitlines()[-1] if base.strip() else '?', touched_tests))
            continue
        dest = os.path.join(VERIF, 'seeded', sid)
        os.makedirs(dest, exist_ok=True)
        shutil.copy(diff, os.path.join(dest, 'patch.diff'))
        shutil.copy(demo, os.path.join(dest, 'demo.py'))
        head = sh('git -C /repo rev-parse --short HEAD', VERIF)[1].strip()
        meta = {
            'id': sid, 'breaks_property': prop, 'round': int(os.environ.get('SEED_ROUND', '7')), 'base_commit': head,
            'needs_to_manifest': '(see the demonstration; summary to be filled in from the author report)',
            'author': 'independent sub-agent given only the property text and a scratch worktree (round 2: asked for '
                      'indirect causes rather than the most obvious edit)',
            'confirmed': {'pinned_suite_with_change': base.strip().splitlines()[-1], 'demo_exit_without_change': rc0,
                          'demo_exit_with_change': rc1, 'demo_output_with_change': out1[-400:]},
            'what_was_run': 'tools/seed_intake.py <scratch worktree> %s: demo on the clean worktree, git apply, demo, '
                            'tools/baseline.py <worktree> (pinned suite, stable-pass comparison), git checkout -- pedal' % prop,
        }
        json.dump(meta, open(os.path.join(dest, 'meta.json'), 'w'), indent=1)
        print(sid, 'KEPT  demo without=%s with=%s %s' % (rc0, rc1, base.strip().splitlines()[-1]))


if __name__ == '__main__':
    main()
