#!/venv/bin/python
"""Evaluate a seeded change: confirm it (tests still pass, demo fails with / passes without the change) and run the
static checks against the changed tree.

usage: seed_eval.py <worktree> <patch.diff> <demo.py> [--props C01,C05] [--skip-tests]

The worktree is a scratch git worktree of /repo outside /repo and /verif; the patch is applied there, the checks are run
with --repo <worktree> --no-write, and the patch is reverted afterwards. Nothing is written to /repo or to the evidence.
"""
import argparse
import json
import os
import re
import subprocess
import sys

VERIF = os.path.dirname(os.path.dirname(os.path.abspath(__file__)))
sys.path.insert(0, VERIF)


def sh(cmd, cwd, timeout=1200):
    p = subprocess.run(cmd, cwd=cwd, shell=isinstance(cmd, str), stdout=subprocess.PIPE, stderr=subprocess.STDOUT,
                       text=True, timeout=timeout)
    return p.returncode, p.stdout


def main():
    ap = argparse.ArgumentParser()
    ap.add_argument('worktree')
    ap.add_argument('patch')
    ap.add_argument('demo')
    ap.add_argument('--props', default='')
    ap.add_argument('--skip-tests', action='store_true')
    a = ap.parse_args()
    wt = os.path.abspath(a.worktree)
    assert not wt.startswith('/repo') and not wt.startswith('/verif')
    from pedalstat.claims import CLAIMS
    props = [p for p in a.props.split(',') if p] or sorted(CLAIMS)
    out = {'worktree': wt, 'patch': a.patch, 'demo': a.demo}
    sh('git checkout -- pedal', wt)
    rc0, demo0 = sh(['/venv/bin/python', os.path.abspath(a.demo)], wt, 300)
    out['demo_without_change'] = rc0
    rc, txt = sh(['git', 'apply', '--whitespace=nowarn', os.path.abspath(a.patch)], wt)
    if rc != 0:
        print(json.dumps(dict(out, error='patch does not apply: ' + txt[-300:]), indent=1))
        return 2
    try:
        rc1, demo1 = sh(['/venv/bin/python', os.path.abspath(a.demo)], wt, 300)
        out['demo_with_change'] = rc1
        out['demo_output_with_change'] = demo1[-600:]
        if not a.skip_tests:
            rc, txt = sh('/venv/bin/python -m pytest -q -p no:cacheprovider --timeout=900 '
                         '--continue-on-collection-errors 2>&1 | tail -1', wt)
            out['tests'] = txt.strip()
        caught = {}
        for p in props:
            rc, txt = sh(['/venv/bin/python', '-m', 'pedalstat', 'check', p, '--repo', wt, '--no-write'], VERIF, 900)
            rules = re.findall(r'\[%s (R\w+)\] ([^\n]*)' % p, txt)
            if rc == 1:
                caught[p] = sorted({r for r, _ in rules})
                out.setdefault('reports', {})[p] = [("%s %s" % (r, m))[:260] for r, m in rules][:4]
            elif rc == 2:
                caught[p] = ['ANALYSIS-ERROR: ' + txt.strip().splitlines()[-1][:200]]
        out['caught_by'] = caught
    finally:
        sh('git checkout -- pedal', wt)
    print(json.dumps(out, indent=1))
    return 0


if __name__ == '__main__':
    sys.exit(main())
